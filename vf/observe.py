"""Observation of a Ciw run through public extension points only (no source hooks).

MonSimulation overrides event_and_return_nextnode ("record -> super() -> monitors").
ObsNode / ObsPSNode / ObsExactNode / ObsArrivalNode are "snapshot -> super() -> log" subclasses.
Ground truth is recomputed from the object graph, never from Ciw's cached counters.
"""
import traceback
from math import isinf

import vf  # noqa: F401
import ciw
import ciw.simulation as _cs
from ciw.processor_sharing import PSNode

from . import build as B


class Budget(Exception):
    """Raised by the monitor when the event budget is exhausted (inconclusive, never a violation)."""


class StopRun(Exception):
    """Raised by a monitor to end a run early on purpose."""


# ------------------------------------------------------------------------------------------------
# ground truth helpers
# ------------------------------------------------------------------------------------------------
def is_ps(node):
    return isinstance(node, PSNode)


def customers(node):
    """All customer objects at a service node, straight from the per-priority lists."""
    out = []
    for lst in node.individuals:
        out.extend(lst)
    return out


def live(node, ind):
    """Is `ind` in live service at `node` (holding a server / a share)?  Blocked customers that still
    hold their server count as live (they occupy the server)."""
    if is_ps(node):
        return bool(getattr(ind, "with_server", False))
    if isinf(node.c):
        return True
    if node.slotted:
        return ind.server is True and ind.service_end_date is not False
    s = ind.server
    if s is False or s is None or s is True:
        return False
    if getattr(s, "cust", None) is not ind:
        return False
    for x in node.servers:
        if x is s:
            return True
    return False


def waiting(node):
    return [i for i in customers(node) if not live(node, i)]


def in_service(node):
    return [i for i in customers(node) if live(node, i)]


# ------------------------------------------------------------------------------------------------
# observing subclasses
# ------------------------------------------------------------------------------------------------
class ObsMixin(object):
    """snapshot -> super() -> log.  Adds no logic."""

    def _log(self, *entry):
        self.simulation.obslog.append(entry)

    def attach_server(self, server, individual, *args, **kwargs):
        cands = [(i.id_number, i.priority_class, i, _interrupted_waiting(self, i)) for i in customers(self) if not live(self, i)]
        restart = individual in self.interrupted_individuals
        super().attach_server(server, individual, *args, **kwargs)
        self._log("attach", self.now, self.id_number, individual, server, cands, restart)

    def next_node(self, ind):
        snap = _route_snapshot(self.simulation)
        cls_now = ind.customer_class
        route_before = _copy_route(ind)
        nn = super().next_node(ind)
        self._log("route", self.now, self.id_number, ind, cls_now, nn.id_number, snap, route_before, "next")
        return nn

    def next_node_for_rerouting(self, ind):
        snap = _route_snapshot(self.simulation)
        route_before = _copy_route(ind)
        nn = super().next_node_for_rerouting(ind)
        self._log("route", self.now, self.id_number, ind, ind.customer_class, nn.id_number, snap, route_before, "reroute")
        return nn

    def next_node_for_jockeying(self, ind):
        snap = _route_snapshot(self.simulation)
        route_before = _copy_route(ind)
        nn = super().next_node_for_jockeying(ind)
        self._log("route", self.now, self.id_number, ind, ind.customer_class, nn.id_number, snap, route_before, "jockey")
        return nn

    def preempt(self, individual_to_preempt, next_individual, *args, **kwargs):
        # candidates for pre-emption: customers in live service on servers of the current shift (a server finishing its last customer after
        # its shift has ended is not interrupted)
        insvc = [(i.id_number, i.priority_class, i.service_start_date) for i in in_service(self) if not getattr(i.server, "offduty", False)]
        was_blocked = bool(individual_to_preempt.is_blocked)
        srv = individual_to_preempt.server
        super().preempt(individual_to_preempt, next_individual, *args, **kwargs)
        self._log("preempt", self.now, self.id_number, individual_to_preempt, next_individual, insvc, was_blocked, srv)

    def change_customer_class(self, individual):
        before = individual.customer_class
        super().change_customer_class(individual)
        self._log("cc_after", self.now, self.id_number, individual, before, individual.customer_class)

    def change_customer_class_while_waiting(self):
        ind = self.next_individual
        before = ind.customer_class
        was_live = live(self, ind)
        super().change_customer_class_while_waiting()
        self._log("cc_wait", self.now, self.id_number, ind, before, ind.customer_class, was_live)

    def accept(self, next_individual, *args, **kwargs):
        was_blocked = bool(getattr(next_individual, "is_blocked", False))
        self._log("accept", self.now, self.id_number, next_individual, was_blocked)     # logged in entry order (before the nested effects of the entry)
        super().accept(next_individual, *args, **kwargs)

    def block_individual(self, individual, next_node, *args, **kwargs):
        pop = len(customers(next_node))
        super().block_individual(individual, next_node, *args, **kwargs)
        self._log("block", self.now, self.id_number, individual, next_node.id_number, pop)

    def interrupt_service(self, individual, *args, **kwargs):
        was_blocked = bool(individual.is_blocked)
        super().interrupt_service(individual, *args, **kwargs)
        self._log("interrupt", self.now, self.id_number, individual, was_blocked)


def _interrupted_waiting(node, ind):
    """Record-based: the last record of the customer's current visit is a non-moving interruption at this node."""
    if not ind.data_records:
        return False
    r = ind.data_records[-1]
    if r.record_type != "interrupted service" or r.node != node.id_number or r.arrival_date != ind.arrival_date:
        return False
    d = r.destination
    return d != d       # NaN destination = not rerouted


def _copy_route(ind):
    r = getattr(ind, "route", None)
    if r is None:
        return None
    return [list(x) if isinstance(x, list) else x for x in r]


def _route_snapshot(Q):
    """(true population, true number holding a server) per service node at this instant."""
    snap = {}
    for nd in Q.transitive_nodes:
        cs = customers(nd)
        snap[nd.id_number] = (len(cs), sum(1 for i in cs if live(nd, i)))
    return snap


class ObsNode(ObsMixin, ciw.Node):
    pass


class ObsPSNode(ObsMixin, PSNode):
    pass


class ObsExactNode(ObsMixin, ciw.ExactNode):
    pass


class ObsArrivalMixin(object):
    def have_event(self):
        Q = self.simulation
        before = self.number_of_individuals
        nd, cl, t = self.next_node, self.next_class, Q.current_time
        date = self.event_dates_dict[nd][cl]
        super().have_event()
        Q.obslog.append(("arrival_event", t, nd, cl, self.number_of_individuals - before, date))

    def release_individual(self, next_node, next_individual, *args, **kwargs):
        Q = self.simulation
        pop_node = len(customers(next_node))
        pop_sys = sum(len(customers(n)) for n in Q.transitive_nodes)
        created_as = next_individual.customer_class
        ret = super().release_individual(next_node, next_individual, *args, **kwargs)
        at_exit = any(x is next_individual for x in Q.nodes[-1].all_individuals[-1:])
        rec = next_individual.data_records[-1] if next_individual.data_records else None
        Q.obslog.append(("admission", Q.current_time, next_node.id_number, next_individual, pop_node, pop_sys,
                         at_exit, rec.record_type if (at_exit and rec is not None) else None, created_as))
        return ret


class ObsArrivalNode(ObsArrivalMixin, ciw.ArrivalNode):
    pass


class ObsExactArrivalNode(ObsArrivalMixin, ciw.ExactArrivalNode):
    pass


# ------------------------------------------------------------------------------------------------
# simulation with monitors
# ------------------------------------------------------------------------------------------------
class MonSimulation(ciw.Simulation):
    """ciw.Simulation + after-event monitors.  The real simulate_* loops run unmodified around it."""

    def __init__(self, network, monitors=(), budget=800, obs=False, ps_nodes=None, **kw):
        self.obslog = []
        self.monitors = list(monitors)
        self.budget = budget
        self.n_events = 0
        self.event_trace = []      # (clock, node id, event type)
        self.violations = []
        self.last_clock = None
        ps_nodes = ps_nodes or [False] * network.number_of_nodes
        exact = kw.get("exact")
        if obs:
            node_class = [ObsPSNode if p else ObsNode for p in ps_nodes]
            arr = ObsArrivalNode
        else:
            node_class = [PSNode if p else ciw.Node for p in ps_nodes]
            arr = None
        if exact and obs:
            # Simulation(exact=k) overrides node_class with the module globals ExactNode /
            # ExactArrivalNode; substitute the observing subclasses for the duration of __init__.
            old = (_cs.ExactNode, _cs.ExactArrivalNode)
            _cs.ExactNode, _cs.ExactArrivalNode = ObsExactNode, ObsExactArrivalNode
            try:
                super().__init__(network, node_class=node_class, arrival_node_class=arr, **kw)
            finally:
                _cs.ExactNode, _cs.ExactArrivalNode = old
        else:
            super().__init__(network, node_class=node_class, arrival_node_class=arr, **kw)
        for m in self.monitors:
            m.start(self)

    def report(self, prop, clause, site, details):
        self.violations.append({"property": prop, "clause": clause, "site": site, "details": details,
                                "event_index": self.n_events, "clock": _num(self.current_time)})

    def event_and_return_nextnode(self, next_active_node):
        t = self.current_time
        etype = getattr(next_active_node, "next_event_type", None)
        if next_active_node is self.nodes[0]:
            etype = "arrival"
        nid = getattr(next_active_node, "id_number", 0)
        self.cur_event = (t, nid, etype, next_active_node)
        for m in self.monitors:
            m.before(self, next_active_node, etype)
        nxt = super().event_and_return_nextnode(next_active_node)
        self.n_events += 1
        self.event_trace.append((t, nid, etype))
        for m in self.monitors:
            m.after(self, next_active_node, etype, nxt)
        self.last_clock = t
        if self.n_events >= self.budget:
            raise Budget()
        return nxt


def _num(x):
    try:
        return float(x)
    except Exception:
        return repr(x)


class Monitor(object):
    """Base class: monitors return violations through Q.report; nothing raises into Ciw."""
    name = "monitor"

    def start(self, Q):
        pass

    def before(self, Q, node, etype):
        pass

    def after(self, Q, node, etype, nxt):
        pass

    def finish(self, Q, result):
        """Post-run audit (called once, after the whole plan, also after an abort)."""
        pass

    def after_call(self, Q, call_index, plan_step, completed):
        """Called after each simulate_* call returns normally."""
        pass


# ------------------------------------------------------------------------------------------------
# driver
# ------------------------------------------------------------------------------------------------
class CaseResult(object):
    def __init__(self):
        self.violations = []
        self.activity = {}
        self.aborted = None        # exception bucket (type, file, func, line-less) or None
        self.abort_trace = None
        self.budget_hit = False
        self.stopped = False
        self.n_events = 0
        self.calls_completed = 0
        self.Q = None
        self.built = None


def exception_bucket(exc):
    """(type, innermost frame inside ciw/: file, function)."""
    tb = traceback.extract_tb(exc.__traceback__)
    site = None
    for fr in tb:
        fn = fr.filename.replace("\\", "/")
        if "/ciw/" in fn and "/vf/" not in fn:
            site = (fn.split("/ciw/", 1)[1], fr.name)
    if site is None:
        site = ("<harness>", tb[-1].name if tb else "?")
    return (type(exc).__name__, site[0], site[1])


def harness_fault(exc):
    """True when the innermost frame of the traceback is in the harness (vf/), i.e. a bug of ours."""
    tb = traceback.extract_tb(exc.__traceback__)
    if not tb:
        return True
    fn = tb[-1].filename.replace("\\", "/")
    return "/vf/" in fn


class HarnessError(Exception):
    pass


def run_case(spec, monitors=(), obs=False, log=False, baulk_log=False, sim_factory=None):
    """Seed, build, simulate according to spec['plan'], run audits.  Returns CaseResult."""
    res = CaseResult()
    ciw.seed(spec["seed"])
    b = B.build(spec, log=log, baulk_log=baulk_log)
    res.built = b
    budget = spec.get("event_budget", 800)
    try:
        Q = MonSimulation(b.network, monitors=monitors, budget=budget, obs=obs, ps_nodes=b.ps_nodes, **b.sim_kwargs)
    except Exception as e:  # constructing the simulation is part of what C14 claims
        if harness_fault(e):
            raise
        res.aborted = exception_bucket(e)
        res.abort_trace = traceback.format_exc()
        return res
    Q.built = b
    res.Q = Q
    plan = spec["plan"]
    steps = []
    if plan["kind"] == "max_time":
        steps = [("max_time", T) for T in plan["T"]]
    elif plan["kind"] == "max_customers":
        steps = [("max_customers", plan["n"], plan.get("method", "Complete"))]
    elif plan["kind"] == "mixed":
        steps = [tuple(x) for x in plan["steps"]]
    elif plan["kind"] == "until_deadlock":
        steps = ([("max_time", plan["T_before"])] if plan.get("T_before") else []) + [("until_deadlock",)]
    Q.plan_steps = steps
    try:
        for k, st in enumerate(steps):
            Q.call_index = k
            Q.cur_step = st
            if st[0] == "max_time":
                Q.simulate_until_max_time(st[1])
            elif st[0] == "max_customers":
                Q.simulate_until_max_customers(st[1], method=st[2])
            else:
                Q.simulate_until_deadlock()
            res.calls_completed += 1
            for m in monitors:
                m.after_call(Q, k, st, True)
    except Budget:
        res.budget_hit = True
    except StopRun:
        res.stopped = True
    except HarnessError:
        raise
    except Exception as e:
        if harness_fault(e):
            raise
        res.aborted = exception_bucket(e)
        res.abort_trace = traceback.format_exc()
    res.n_events = Q.n_events
    for m in monitors:
        m.finish(Q, res)
    res.violations = Q.violations
    return res
