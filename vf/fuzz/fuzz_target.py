#!/venv/bin/python
"""Coverage-guided fuzzing (atheris / libFuzzer) through the same structured decoder as the Hypothesis checks:
the fuzzer's bytes drive Hypothesis' NetSpec strategy (fuzz_one_input); the semantic monitors (C01 conservation, C02 time flow,
C14 horizon + no internal error) run inside the target, so the target checks the properties, not just crashes.

  PYTHONHASHSEED=0 /venv/bin/python vf/fuzz/fuzz_target.py <corpus_dir> -runs=N -seed=S -max_len=4096 -len_control=0

Findings (violations not covered by known_findings.json) are appended as JSON lines to $VERIF_FUZZ_OUT (default
<corpus_dir>/findings.jsonl); the process never aborts on a finding so that the campaign continues past the first one."""
import json
import os
import sys

HERE = os.path.dirname(os.path.abspath(__file__))
sys.path.insert(0, os.path.dirname(os.path.dirname(HERE)))
sys.path.insert(0, os.path.join(os.path.dirname(os.path.dirname(HERE)), ".deps"))
sys.path.insert(1, "/verif/.deps")          # where MANIFEST setup_cmd installs atheris (also when this tree is a copy elsewhere)
import vf  # noqa: E402
import atheris  # noqa: E402

with atheris.instrument_imports(include=["ciw"]):
    import ciw  # noqa: F401

from hypothesis import given, settings, HealthCheck  # noqa: E402
from vf import observe as O  # noqa: E402
from vf import strategies as S  # noqa: E402
from vf import runner as RUN  # noqa: E402
from vf.monitors.conservation import Conservation  # noqa: E402
from vf.monitors.timeflow import TimeFlow  # noqa: E402
from vf.monitors.horizon import Horizon  # noqa: E402
from vf.props import common  # noqa: E402

PROF = common.full_profile("C02", allowed=common.FULL + ["exact", "deadlock"], horizon=(0.25, 12.0), budget=300,
                           plans=("max_time", "max_time", "max_customers"))      # kept as when the committed corpus was minimised
PROF.weights.update({"exact": 0.1, "deadlock": 0.1, "tracker": 0.3})
KNOWN = RUN.load_known()
STATS = {"cases": 0, "findings": 0, "known": 0, "aborted": 0, "events": 0}
OUT = [None]
SEEN = set()


@settings(database=None, deadline=None, suppress_health_check=list(HealthCheck), max_examples=1)
@given(S.netspec(PROF))
def target(spec):
    mons = [Conservation(), TimeFlow(), Horizon()]
    res = O.run_case(spec, mons)
    STATS["cases"] += 1
    STATS["events"] += res.n_events
    viol = list(res.violations)
    if res.aborted:
        STATS["aborted"] += 1
        viol.append({"property": "C14", "clause": "C14.no-internal-error", "site": "|".join(res.aborted), "details": {"trace": (res.abort_trace or "")[-800:]}})
    for v in viol:
        if RUN.match_known(v["property"], v, spec, KNOWN) is not None:
            STATS["known"] += 1
            continue
        key = (v["property"], v["clause"], v.get("site"))
        if key in SEEN:
            continue
        SEEN.add(key)
        STATS["findings"] += 1
        with open(OUT[0], "a") as f:
            f.write(json.dumps({"property": v["property"], "clause": v["clause"], "site": v.get("site"), "details": v.get("details"), "case": spec},
                               default=repr, sort_keys=True) + "\n")


def one_input(data):
    try:
        target.hypothesis.fuzz_one_input(data)
    except O.HarnessError:
        raise


def main():
    corpus = [a for a in sys.argv[1:] if not a.startswith("-")]
    OUT[0] = os.environ.get("VERIF_FUZZ_OUT") or os.path.join(corpus[0] if corpus else ".", "findings.jsonl")
    atheris.Setup(sys.argv, one_input)
    try:
        atheris.Fuzz()
    finally:
        pass


if __name__ == "__main__":
    import atexit
    main()
