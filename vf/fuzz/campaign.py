"""Drive atheris campaigns / corpus replay from the runner (thorough tier: campaign; quick tier: replay of the committed corpus)."""
import glob
import json
import os
import re
import shutil
import subprocess
import sys
import tempfile
import time
from collections import Counter

import vf

HERE = os.path.dirname(os.path.abspath(__file__))
CORPUS = os.path.join(HERE, "corpus")
TARGET = os.path.join(HERE, "fuzz_target.py")


def _acc():
    return {"evaluations": 0, "nontrivial": [], "classes": Counter(), "violations": [], "aborted": Counter(), "budget_hit": 0,
            "samples": [], "best": None, "skipped_deadline": 0, "events": 0, "pairs": [], "abort_examples": {}}


def campaign(pid, tier, seed, deadline, forks=8, wall=100):
    """Runs `forks` independent libFuzzer processes (coverage-guided, each from the committed seed corpus and an empty one
    alternately) and returns a worker-style accumulator with the findings that belong to property `pid`."""
    acc = _acc()
    wall = int(max(10, min(wall, deadline - time.time() - 20)))
    tmp = tempfile.mkdtemp(prefix="ciwfuzz_")
    procs = []
    env = dict(os.environ, PYTHONHASHSEED="0")
    try:
        for i in range(forks):
            d = os.path.join(tmp, "c%d" % i)
            os.makedirs(d)
            args = ["/venv/bin/python", TARGET, d]
            if i % 2 == 0:
                args.append(CORPUS)          # odd forks start from an empty corpus
            args += ["-max_total_time=%d" % wall, "-seed=%d" % (seed * 100 + i + 1), "-max_len=4096", "-len_control=0", "-print_final_stats=1"]
            e = dict(env, VERIF_FUZZ_OUT=os.path.join(d, "findings.jsonl"))
            procs.append((d, subprocess.Popen(args, env=e, stdout=subprocess.DEVNULL, stderr=subprocess.PIPE, text=True)))
        seen = set()
        for d, p in procs:
            try:
                _, err = p.communicate(timeout=wall + 120)
            except subprocess.TimeoutExpired:
                p.kill()
                _, err = p.communicate()
            m = re.search(r"stat::number_of_executed_units:\s*(\d+)", err or "")
            runs = int(m.group(1)) if m else 0
            acc["evaluations"] += runs
            acc["classes"]["fuzz_executions"] += runs
            m = re.search(r"cov: (\d+)", (err or "")[-3000:])
            if m:
                acc["classes"]["max_cov_edges"] = max(acc["classes"]["max_cov_edges"], int(m.group(1)))
            new = len(glob.glob(os.path.join(d, "*"))) - (1 if os.path.exists(os.path.join(d, "findings.jsonl")) else 0)
            acc["classes"]["corpus_entries_found"] += new
            f = os.path.join(d, "findings.jsonl")
            if os.path.exists(f):
                for line in open(f):
                    it = json.loads(line)
                    if it["property"] != pid:
                        continue
                    key = (it["clause"], it.get("site"))
                    if key in seen:
                        continue
                    seen.add(key)
                    acc["violations"].append({"v": {"property": pid, "clause": it["clause"], "site": it.get("site"), "details": it.get("details")}, "case": it["case"]})
        # distinct non-trivial = corpus entries libFuzzer kept because they reached new coverage (each is a distinct input)
        acc["nontrivial"] = ["fuzz-%d" % i for i in range(acc["classes"]["corpus_entries_found"])]
        acc["samples"] = [{"case": "libFuzzer campaign: %d forks x %ds, seeds %d.., max_len 4096; inputs decoded by Hypothesis fuzz_one_input into NetSpecs" % (forks, wall, seed * 100 + 1),
                           "activity": dict(acc["classes"])}]
    finally:
        shutil.rmtree(tmp, ignore_errors=True)
    return acc


def replay_corpus(pid, tier, seed, deadline):
    """Quick tier: replays the committed corpus (bytes -> NetSpec -> monitored run) in a subprocess, no mutation."""
    acc = _acc()
    tmp = tempfile.mkdtemp(prefix="ciwfuzz_")
    try:
        out = os.path.join(tmp, "findings.jsonl")
        env = dict(os.environ, PYTHONHASHSEED="0", VERIF_FUZZ_OUT=out)
        files = sorted(glob.glob(os.path.join(CORPUS, "*")))
        files = files[seed % 3::3]          # quick tier: a third of the committed corpus per run, rotating with the seed (thorough: all of it seeds the campaign)
        p = subprocess.run(["/venv/bin/python", TARGET] + files + ["-max_len=4096"], env=env, stdout=subprocess.DEVNULL, stderr=subprocess.PIPE, text=True,
                           timeout=max(30, deadline - time.time()))
        if p.returncode != 0 and "atheris" in (p.stderr or "") and "No module named" in (p.stderr or ""):
            acc["classes"]["fuzz_unavailable_atheris_not_installed"] = 1
            return acc
        acc["evaluations"] = len(files)
        acc["nontrivial"] = ["corpus-%s" % os.path.basename(f)[:12] for f in files]
        acc["classes"]["corpus_inputs_replayed"] = len(files)
        if os.path.exists(out):
            seen = set()
            for line in open(out):
                it = json.loads(line)
                if it["property"] != pid or (it["clause"], it.get("site")) in seen:
                    continue
                seen.add((it["clause"], it.get("site")))
                acc["violations"].append({"v": {"property": pid, "clause": it["clause"], "site": it.get("site"), "details": it.get("details")}, "case": it["case"]})
        acc["samples"] = [{"case": "replay of %d of the committed corpus inputs (vf/fuzz/corpus, every third file starting at seed %% 3) through the fuzz target" % len(files), "activity": {}}]
    finally:
        shutil.rmtree(tmp, ignore_errors=True)
    return acc
