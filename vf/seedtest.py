"""Run checks against a patched scratch copy of Ciw without touching /repo or /verif's evidence:
   python -m vf.seedtest <patch.diff> <ID> [<ID> ...] [--tier quick] [--suite]
Copies /repo/ciw to a temp dir outside /repo and /verif, applies the patch there, runs the checks with
VERIF_CIW_PATH / VERIF_OUT pointing at temp dirs, prints one line per check, removes the temp dirs."""
import os
import shutil
import subprocess
import sys
import tempfile
import time


def main(argv):
    patch = os.path.abspath(argv[0])
    ids = [a for a in argv[1:] if not a.startswith("--")]
    tier = "quick"
    if "--tier" in argv:
        tier = argv[argv.index("--tier") + 1]
        ids = [i for i in ids if i != tier]
    tmp = tempfile.mkdtemp(prefix="ciwmut_")
    out = tempfile.mkdtemp(prefix="ciwout_")
    rc = 0
    try:
        subprocess.check_call(["git", "-C", "/repo", "worktree", "add", "-q", "--detach", os.path.join(tmp, "wt"), "HEAD"])
        wt = os.path.join(tmp, "wt")
        r = subprocess.run(["git", "-C", wt, "apply", patch], capture_output=True, text=True)
        if r.returncode != 0:
            print("PATCH-DOES-NOT-APPLY", r.stderr[:300])
            return 3
        if "--suite" in argv:
            r = subprocess.run(["/venv/bin/python", "-m", "pytest", "-q", "-p", "no:cacheprovider", "-x", "ciw/tests"], cwd=wt, capture_output=True, text=True)
            print("suite:", r.stdout.strip().splitlines()[-1] if r.stdout.strip() else r.stderr[-200:])
        env = dict(os.environ, VERIF_CIW_PATH=wt, VERIF_OUT=out, PYTHONHASHSEED="0")
        for pid in ids:
            t0 = time.time()
            r = subprocess.run(["/venv/bin/python", "-m", "vf.runner", pid, tier], cwd="/verif", env=env, capture_output=True, text=True)
            lines = [l for l in r.stdout.splitlines() if l.startswith(("VIOLATION", "OK", "HARNESS"))]
            print("%s exit=%d %.0fs %s" % (pid, r.returncode, time.time() - t0, " | ".join(l[:230] for l in lines[:4])))
            if r.returncode == 2:
                print(r.stderr[-800:])
            if r.returncode == 1:
                rc = 1
    finally:
        subprocess.run(["git", "-C", "/repo", "worktree", "remove", "--force", os.path.join(tmp, "wt")], capture_output=True)
        shutil.rmtree(tmp, ignore_errors=True)
        shutil.rmtree(out, ignore_errors=True)
    return rc


if __name__ == "__main__":
    sys.exit(main(sys.argv[1:]))
