"""Pin a case as a replay file:  python -m vf.pin <ID> <subcheck> <case.json|-> <out.json> [clause-substring]
Executes the case through the sub-check, optionally reduces it, and records clause/site of the matching violation."""
import importlib
import json
import sys

import vf
from vf import reduce as R


def main(argv):
    pid, scname, src, out = argv[:4]
    want = argv[4] if len(argv) > 4 else None
    do_reduce = "--reduce" in argv
    case = json.load(sys.stdin if src == "-" else open(src))
    if "case" in case and "nodes" not in case:
        case = case["case"]
    case.pop("_excluded", None)
    prop = importlib.import_module("vf.props." + pid)
    sc = [s for s in prop.subchecks("quick") if s.name == scname][0]
    o = sc.execute(case)
    vs = [v for v in o["violations"] if want is None or want in v["clause"] or want in str(v.get("site"))]
    if not vs:
        print("no matching violation; got:", [(v["clause"], v.get("site")) for v in o["violations"]], "aborted:", o.get("aborted"))
        return 1
    v = vs[0]
    if do_reduce and sc.is_spec:
        case, v = R.reduce_case(sc, case, v, max_runs=400)
    json.dump({"property": pid, "subcheck": scname, "clause": v["clause"], "site": v.get("site"), "details": v.get("details"),
               "case": case}, open(out, "w"), indent=1, sort_keys=True, default=repr)
    print("pinned", v["clause"], v.get("site"))
    return 0


if __name__ == "__main__":
    sys.exit(main(sys.argv[1:]))
