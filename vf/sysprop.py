"""System-level sub-check plumbing: NetSpec -> run_case with monitors -> outcome dict for the runner."""
import itertools
from collections import Counter

from . import build as B
from . import observe as O
from .runner import SubCheck
from . import strategies as S


class Activity(O.Monitor):
    """Counts what happened in a run (used for the non-trivial rules and evidence classes)."""
    name = "activity"

    def start(self, Q):
        self.a = Counter()
        self.etypes = Counter()

    def after(self, Q, node, etype, nxt):
        self.etypes[etype] += 1

    def finish(self, Q, res):
        a = self.a
        a["events"] = Q.n_events
        a["created"] = Q.nodes[0].number_of_individuals
        a["at_exit"] = len(Q.nodes[-1].all_individuals)
        inds = list(Q.nodes[-1].all_individuals)
        for nd in Q.transitive_nodes:
            inds.extend(O.customers(nd))
        for ind in inds:
            recs = ind.data_records
            if len(recs) >= 2:
                a["multi_record_customers"] += 1
            for r in recs:
                a["rec_" + r.record_type.replace(" ", "_")] += 1
                if r.record_type == "service":
                    try:
                        if r.time_blocked > 0:
                            a["blocked_records"] += 1
                        if r.waiting_time > 0:
                            a["waited_records"] += 1
                        if r.destination != -1:
                            a["transfers"] += 1
                    except Exception:
                        pass
        for k, v in self.etypes.items():
            a["ev_" + str(k)] = v
        for e in Q.obslog:
            a["obs_" + e[0]] += 1
        a["records"] = sum(v for k, v in a.items() if k.startswith("rec_"))


def system_subcheck(name, prof, monitor_factory, nontrivial, classes=None, n=None, obs=False, log=False,
                    baulk_log=False, rule="", abort_is_violation=None, score=None, post=None, strategy=None,
                    spec_filter=None):
    """monitor_factory(spec) -> list of monitors; nontrivial(activity dict, spec, res) -> bool;
    classes(activity, spec, res) -> list of labels; abort_is_violation = property id or None."""

    def execute(spec):
        if spec_filter is not None:
            spec = spec_filter(spec)
        act = Activity()
        mons = [act] + list(monitor_factory(spec))
        res = O.run_case(spec, mons, obs=obs, log=log, baulk_log=baulk_log)
        a = dict(act.a) if hasattr(act, "a") else {}
        for m in mons[1:]:
            for k, v in getattr(m, "activity", {}).items():
                a[k] = a.get(k, 0) + v
        viol = list(res.violations)
        if post is not None:
            viol.extend(post(spec, res, a) or [])
        if res.aborted and abort_is_violation:
            viol.append({"property": abort_is_violation, "clause": abort_is_violation + ".no-internal-error",
                         "site": "|".join(res.aborted), "details": {"trace": (res.abort_trace or "")[-1500:]}})
        feats = sorted(B.features(spec))
        out = {
            "violations": viol,
            "activity": {k: a[k] for k in sorted(a) if a[k]},
            "aborted": res.aborted,
            "budget_hit": res.budget_hit,
            "events": res.n_events,
            "nontrivial": bool(nontrivial(a, spec, res)),
            "classes": (classes(a, spec, res) if classes else []) + ["excluded:" + x for x in spec.get("_excluded", [])],
            "pairs": list(itertools.combinations(feats, 2)),
            "score": (score(a, spec, res) if score else a.get("events", 0)),
        }
        return out

    return SubCheck(name, execute, strategy=strategy if strategy is not None else S.netspec(prof), n=n, kind="system", rule=rule)


def fuzz_subcheck(base, tier):
    """Coverage-guided tier (atheris): thorough = campaign, quick = replay of the committed corpus.  Findings are NetSpecs and are
    re-executed / reduced through `base` (the property's own lattice sub-check)."""
    from .fuzz import campaign as C
    sc = SubCheck("fuzz", base.execute, strategy=None, n={"quick": 0, "thorough": 0}, kind="coverage-guided fuzzing",
                  rule=("atheris/libFuzzer over Hypothesis fuzz_one_input(NetSpec strategy) with the C01/C02/C14 monitors inside the target; "
                        "quick: replay of the committed corpus; thorough: 8 forks x 100 s from the seed corpus and from an empty corpus; "
                        "non-trivial = inputs libFuzzer kept for new coverage"))
    if tier == "thorough":
        sc.custom = lambda pid, tier, seed, deadline: C.campaign(pid, tier, seed, deadline)
    else:
        sc.custom = lambda pid, tier, seed, deadline: C.replay_corpus(pid, tier, seed, deadline)
    return sc
