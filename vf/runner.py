"""Runner: shards a property's sub-checks over processes, merges counters, buckets violations, matches
them against known_findings.json, reduces unknown buckets to replay files, writes evidence.

exit 0  property held on everything explored (KNOWN-FINDING lines may be printed)
exit 1  VIOLATION property=<id> replay=<path>
exit 2  harness error (never a VIOLATION)
"""
import importlib
import json
import multiprocessing as mp
import os
import sys
import time
import traceback
from collections import Counter

import vf
from vf import build as B

W = int(os.environ.get("VERIF_WORKERS", "16"))
# where evidence and newly found replays are written (redirected when checks are run against scratch copies / mutants)
OUT_DIR = os.environ.get("VERIF_OUT", vf.VERIF_DIR)


class SubCheck(object):
    """One generated-input check.

    strategy    hypothesis strategy for a JSON-able case (or None when `cases` enumerates a finite domain)
    execute     case -> outcome dict {violations: [...], nontrivial: bool, classes: [...], activity: {...},
                aborted: bucket|None, budget_hit: bool, score: float}
    n           {"quick": N, "thorough": N} total examples over all workers
    """

    def __init__(self, name, execute, strategy=None, n=None, cases=None, kind="system", rule="", exhaustive=False,
                 is_spec=True):
        self.name = name
        self.execute = execute
        self.strategy = strategy
        self.n = n or {"quick": 1000, "thorough": 10000}
        self.cases = cases            # callable(tier) -> list of cases (finite enumeration)
        self.kind = kind
        self.rule = rule
        self.exhaustive = exhaustive
        self.is_spec = is_spec        # case is a NetSpec (spec-level reducer applies)
        self.machine = None           # callable(body) -> RuleBasedStateMachine subclass (stateful generation of histories)
        self.custom = None            # callable(pid, tier, seed, deadline) -> accumulator (run once in the parent, e.g. fuzz campaigns)


def _digest(case):
    import hashlib
    return hashlib.sha1(json.dumps(case, sort_keys=True, default=repr).encode()).hexdigest()[:16]


def _worker(args):
    pid, tier, seed, w, nw, deadline = args
    try:
        return _worker_inner(pid, tier, seed, w, nw, deadline)
    except Exception:
        return {"harness_error": traceback.format_exc()}


def _worker_inner(pid, tier, seed, w, nw, deadline):
    import hypothesis
    from hypothesis import given, settings, HealthCheck, Phase
    prop = importlib.import_module("vf.props." + pid)
    out = {}
    scs_ = [x for x in prop.subchecks(tier) if x.custom is None]

    def _weight(x):
        # expected cost share of a sub-check: its case count (long-run / child-process sub-checks have few, expensive cases)
        n_ = x.n.get(tier, 0) if isinstance(getattr(x, "n", None), dict) else 0
        return float(max(n_, 600))
    for idx, sc in enumerate(scs_):
        # every sub-check gets its share of the time that is left, so that a slow early sub-check cannot starve the later ones
        left = deadline - time.time()
        sub_deadline = time.time() + max(left, 0.0) * _weight(sc) / sum(_weight(x) for x in scs_[idx:])
        acc = {"evaluations": 0, "nontrivial": set(), "classes": Counter(), "violations": [], "aborted": Counter(),
               "budget_hit": 0, "samples": [], "best": None, "skipped_deadline": 0, "events": 0,
               "pairs": set(), "abort_examples": {}}

        def body(case, sc=sc, acc=acc, sub_deadline=sub_deadline):
            if time.time() > sub_deadline:
                acc["skipped_deadline"] += 1
                return
            o = sc.execute(case)
            acc["evaluations"] += 1
            acc["events"] += o.get("events", 0)
            for c in o.get("classes", ()):
                acc["classes"][c] += 1
            if o.get("budget_hit"):
                acc["budget_hit"] += 1
            if o.get("aborted"):
                k = "|".join(map(str, o["aborted"]))
                acc["aborted"][k] += 1
                if k not in acc["abort_examples"]:
                    acc["abort_examples"][k] = case
            for p in o.get("pairs", ()):
                acc["pairs"].add(p)
            if o.get("nontrivial"):
                d = _digest(case)
                if d not in acc["nontrivial"]:
                    acc["nontrivial"].add(d)
                    if len(acc["samples"]) < 2:
                        acc["samples"].append({"case": case, "activity": o.get("activity", {})})
                    sc_ = o.get("score", 0)
                    if acc["best"] is None or sc_ > acc["best"][0]:
                        acc["best"] = (sc_, {"case": case, "activity": o.get("activity", {})})
            for v in o.get("violations", ()):
                if len(acc["violations"]) < 200:
                    acc["violations"].append({"v": v, "case": case})
            if tier == "thorough" and o.get("score") is not None:
                try:
                    hypothesis.target(float(o["score"]))
                except Exception:
                    pass

        if sc.machine is not None:
            from hypothesis.stateful import run_state_machine_as_test
            n = max(1, sc.n[tier] // nw)
            st_ = settings(max_examples=n, database=None, deadline=None, derandomize=False, report_multiple_bugs=False,
                           suppress_health_check=list(HealthCheck), phases=[Phase.generate], stateful_step_count=getattr(sc, "steps", 8))
            run_state_machine_as_test(hypothesis.seed(seed * 1000 + w)(sc.machine(body)), settings=st_)
        elif sc.cases is not None:
            cases = sc.cases(tier)
            for i, case in enumerate(cases):
                if i % nw == w:
                    body(case)
        else:
            n = max(1, sc.n[tier] // nw)
            st_ = settings(max_examples=n, database=None, deadline=None, derandomize=False, report_multiple_bugs=False,
                           suppress_health_check=list(HealthCheck), phases=[Phase.generate, Phase.target])

            @hypothesis.seed(seed * 1000 + w)
            @st_
            @given(sc.strategy)
            def test(case):
                body(case)
            test()
        acc["nontrivial"] = sorted(acc["nontrivial"])
        acc["pairs"] = sorted(acc["pairs"])
        out[sc.name] = acc
    return out


def load_known():
    p = os.path.join(vf.VERIF_DIR, "known_findings.json")
    if not os.path.exists(p):
        return []
    return json.load(open(p)).get("findings", [])


def match_known(pid, v, case, known):
    """A violation is covered by a `known` entry only if property, clause and site agree and the entry's
    feature signature is present in the failing case."""
    for k in known:
        if k.get("status") != "known" or k["property"] != pid:
            continue
        if k["clause"] != v["clause"]:
            continue
        if k.get("site") not in (None, v.get("site")):
            continue
        sig = set(k.get("signature", []))
        if sig and isinstance(case, dict) and "nodes" in case:
            if not sig <= B.features(case):
                continue
        pred = k.get("predicate")
        if pred:
            from vf import findings
            if not getattr(findings, pred)(case, v):
                continue
        return k
    return None


def run(pid, tier):
    t0 = time.time()
    os.environ["VERIF_ACTIVE_TIER"] = tier
    seed = int(os.environ.get("VERIF_SEED", "1"))
    prop = importlib.import_module("vf.props." + pid)
    budget = prop.WALL.get(tier, 60) if hasattr(prop, "WALL") else (50 if tier == "quick" else 540)
    deadline = t0 + budget
    known = load_known()
    scs = prop.subchecks(tier)
    if os.environ.get("VERIF_ONLY_SUBCHECKS") and os.environ.get("VERIF_OUT"):
        # probing aid (seed evaluation against scratch trees): run a subset of the sub-checks; never used by registered commands
        scs = [s for s in scs if s.name in os.environ["VERIF_ONLY_SUBCHECKS"].split(",")]

    # 1. pinned replays first: fixed findings are regressions (must pass), known findings must still fail as recorded
    violations_out = []
    known_lines = []
    regress = 0
    notes = []
    for k in known:
        if k["property"] != pid or not k.get("replay"):
            continue
        path = os.path.join(vf.VERIF_DIR, k["replay"])
        rp = json.load(open(path))
        sc = [s for s in scs if s.name == rp["subcheck"]]
        if not sc:
            continue
        o = sc[0].execute(rp["case"])
        regress += 1
        same = [v for v in o.get("violations", ()) if v["clause"] == rp["clause"] and rp.get("site") in (None, v.get("site"))]
        if k["status"] == "fixed":
            if same:
                violations_out.append((rp["clause"], rp.get("site"), k["replay"], "regression of fixed finding: " + k.get("what", "")))
        else:
            if same:
                known_lines.append("KNOWN-FINDING: property=%s %s [%s]" % (pid, k.get("what", ""), k["id"]))
            else:
                notes.append("known_finding_not_reproduced:" + k["id"])

    # 2. generated search
    with mp.Pool(W) as pool:
        results = pool.map(_worker, [(pid, tier, seed, w, W, deadline) for w in range(W)])
    for r in results:
        if "harness_error" in r:
            sys.stderr.write(r["harness_error"])
            print("HARNESS-ERROR property=%s" % pid)
            return 2

    customs = {}
    for sc in scs:
        if sc.custom is not None:
            a = sc.custom(pid, tier, seed, deadline)
            a["nontrivial"] = list(a["nontrivial"])
            customs[sc.name] = a
    for r in results:
        r.update(customs) if r is results[0] else r.update({k: {"evaluations": 0, "nontrivial": [], "classes": {}, "violations": [], "aborted": {},
                                                                 "budget_hit": 0, "samples": [], "best": None, "skipped_deadline": 0, "events": 0,
                                                                 "pairs": [], "abort_examples": {}} for k in customs})
    merged = {}
    for sc in scs:
        m = {"evaluations": 0, "nontrivial": set(), "classes": Counter(), "violations": [], "aborted": Counter(),
             "budget_hit": 0, "samples": [], "best": None, "skipped_deadline": 0, "events": 0, "pairs": set(),
             "abort_examples": {}}
        for r in results:
            a = r[sc.name]
            m["evaluations"] += a["evaluations"]
            m["nontrivial"] |= set(a["nontrivial"])
            m["classes"].update(a["classes"])
            m["violations"].extend(a["violations"])
            m["aborted"].update(a["aborted"])
            m["budget_hit"] += a["budget_hit"]
            m["skipped_deadline"] += a["skipped_deadline"]
            m["events"] += a["events"]
            m["pairs"] |= set(tuple(p) for p in a["pairs"])
            if len(m["samples"]) < 3:
                m["samples"].extend(a["samples"][: 3 - len(m["samples"])])
            if a["best"] is not None and (m["best"] is None or a["best"][0] > m["best"][0]):
                m["best"] = a["best"]
            for k_, c_ in a["abort_examples"].items():
                m["abort_examples"].setdefault(k_, c_)
        merged[sc.name] = m

    # 3. bucket violations, match known, reduce unknown
    known_hit = Counter()
    unknown = {}
    for sc in scs:
        for item in merged[sc.name]["violations"]:
            v, case = item["v"], item["case"]
            k = match_known(pid, v, case, known)
            if k is not None:
                known_hit[k["id"]] += 1
                continue
            key = (sc.name, v["clause"], v.get("site"))
            unknown.setdefault(key, []).append(item)
    for k in known:
        if k["property"] == pid and k.get("status") == "known" and known_hit[k["id"]] and not k.get("replay"):
            known_lines.append("KNOWN-FINDING: property=%s %s [%s]" % (pid, k.get("what", ""), k["id"]))

    for (scname, clause, site), items in sorted(unknown.items(), key=lambda kv: str(kv[0])):
        sc = [s for s in scs if s.name == scname][0]
        items.sort(key=lambda it: len(json.dumps(it["case"], default=repr)))
        case, v = items[0]["case"], items[0]["v"]
        if sc.is_spec and time.time() < t0 + budget * 3:
            from vf import reduce as R
            try:
                case, v = R.reduce_case(sc, case, v, max_runs=150 if tier == "quick" else 400)
            except Exception:
                sys.stderr.write("reducer failed:\n" + traceback.format_exc())
        rdir = os.path.join(OUT_DIR, "replays", pid)
        os.makedirs(rdir, exist_ok=True)
        name = ("%s__%s__%s.json" % (scname, clause, site)).replace("/", "_").replace(" ", "_").replace("|", "-")
        path = os.path.join(rdir, name)
        json.dump({"property": pid, "subcheck": scname, "clause": clause, "site": site, "details": v.get("details"),
                   "case": case, "count_in_run": len(items), "seed": seed, "tier": tier},
                  open(path, "w"), indent=1, sort_keys=True, default=repr)
        violations_out.append((clause, site, os.path.relpath(path, OUT_DIR), json.dumps(v.get("details"), default=repr)[:300]))

    # 4. evidence
    evals = sum(m["evaluations"] for m in merged.values()) + regress
    nontriv = sum(len(m["nontrivial"]) for m in merged.values())
    samples = []
    for sc in scs:
        m = merged[sc.name]
        for s in m["samples"][:2]:
            samples.append({"subcheck": sc.name, **s})
        if m["best"] is not None:
            samples.append({"subcheck": sc.name, "most_active": True, **m["best"][1]})
    cov = {
        "evaluations": evals,
        "distinct_nontrivial": nontriv,
        "rule": prop.RULE + "  Sub-checks of this run: " + "; ".join("%s (%s) - %s" % (sc.name, sc.kind, sc.rule) for sc in scs),
        "samples": samples[:8],
        "events_checked": sum(m["events"] for m in merged.values()),
        "subchecks": {
            sc.name: {
                "kind": sc.kind, "rule": sc.rule, "evaluations": merged[sc.name]["evaluations"],
                "distinct_nontrivial": len(merged[sc.name]["nontrivial"]),
                "classes": dict(sorted(merged[sc.name]["classes"].items())),
                "aborted_by_exception": dict(merged[sc.name]["aborted"]),
                "budget_hit": merged[sc.name]["budget_hit"],
                "skipped_after_wall_budget": merged[sc.name]["skipped_deadline"],
                "feature_pairs_covered": len(merged[sc.name]["pairs"]),
                "exhaustive": bool(sc.exhaustive),
            } for sc in scs},
        "pinned_replays_run": regress,
        "known_findings_hit": dict(known_hit),
        "notes": notes,
        "workers": W,
    }
    if scs and all(sc.exhaustive for sc in scs):
        cov["exhaustive"] = True
    ev = {
        "property_id": pid, "tier": tier, "seed": seed, "level": "exploration", "coverage": cov,
        "assumptions": getattr(prop, "ASSUMPTIONS", []),
        "wall_s": round(time.time() - t0, 2),
        "violations": len(violations_out),
    }
    os.makedirs(os.path.join(OUT_DIR, "evidence"), exist_ok=True)
    json.dump(ev, open(os.path.join(OUT_DIR, "evidence", pid + ".json"), "w"), indent=1, sort_keys=True, default=repr)

    for line in known_lines:
        print(line)
    for sc in scs:
        m = merged[sc.name]
        print("[%s/%s] evaluations=%d nontrivial=%d aborted=%d budget_hit=%d skipped=%d" % (
            pid, sc.name, m["evaluations"], len(m["nontrivial"]), sum(m["aborted"].values()), m["budget_hit"], m["skipped_deadline"]))
    if violations_out:
        for clause, site, path, what in violations_out:
            print("VIOLATION property=%s replay=%s clause=%s site=%s %s" % (pid, path, clause, site, what))
        return 1
    print("OK property=%s tier=%s seed=%d wall=%.1fs" % (pid, tier, seed, time.time() - t0))
    return 0


def replay(pid, path):
    prop = importlib.import_module("vf.props." + pid)
    rp = json.load(open(path))
    scs = prop.subchecks("quick")
    sc = [s for s in scs if s.name == rp["subcheck"]][0]
    o = sc.execute(rp["case"])
    vs = o.get("violations", [])
    for v in vs:
        print("  violation: %s site=%s %s" % (v["clause"], v.get("site"), json.dumps(v.get("details"), default=repr)[:400]))
    if o.get("aborted"):
        print("  aborted:", o["aborted"])
    if vs:
        print("VIOLATION property=%s replay=%s" % (pid, path))
        return 1
    print("OK replay passes")
    return 0


def main(argv):
    if len(argv) < 2:
        print("usage: check <ID> quick|thorough | check <ID> --replay FILE")
        return 2
    pid = argv[0]
    try:
        if argv[1] == "--replay":
            return replay(pid, argv[2])
        return run(pid, argv[1])
    except Exception:
        traceback.print_exc()
        print("HARNESS-ERROR property=%s" % pid)
        return 2


if __name__ == "__main__":
    sys.exit(main(sys.argv[1:]))
