"""Verification framework for CiwPython/Ciw: generated-input search against explicit oracles."""
import os
import sys

CIW_PATH = os.environ.get("VERIF_CIW_PATH", "/repo")
if CIW_PATH not in sys.path[:1]:
    sys.path.insert(0, CIW_PATH)

VERIF_DIR = os.path.dirname(os.path.dirname(os.path.abspath(__file__)))
