"""Child process of C15/process_isolation: runs a prelude of simulations and then the target run; prints the target's digest.
Input (stdin, JSON): {"spec": NetSpec, "prelude": [["precision", seed, T, k] | ["noise", seed] | ["fresh", seed, T]], "target": [seed, T]}"""
import json
import sys

import vf  # noqa: F401
from vf.props import C15


def main():
    job = json.load(sys.stdin)
    import ciw
    from vf import build as B
    spec = job["spec"]
    for op in job["prelude"]:
        try:
            if op[0] == "noise":
                ciw.seed(op[1])
                b = B.build(C15.NOISE)
                C15._run(C15._sim(b, C15.NOISE), 6.0)
            elif op[0] == "precision":
                other = dict(spec, exact=op[3])
                ciw.seed(op[1])
                b = B.build(other)
                C15._run(C15._sim(b, other), op[2])
            elif op[0] == "fresh":
                ciw.seed(op[1])
                b = B.build(spec)
                C15._run(C15._sim(b, spec), op[2])
        except Exception:
            pass            # a failing prelude run is still a legitimate "something ran before"
    seed, T = job["target"]
    ciw.seed(seed)
    b = B.build(spec)
    try:
        d = C15._run(C15._sim(b, spec), T)
    except Exception as e:
        print(json.dumps({"aborted": type(e).__name__}))
        return
    print(json.dumps({"digest": d}))


if __name__ == "__main__":
    main()
