"""Confirm a sub-agent's seeded change and run our checks against it.

  python -m vf.seedeval <PID> <k> <srcdir> [--checks C01,C03] [--name seeded-dir-name]

In a fresh scratch worktree of /repo HEAD (outside /repo and /verif): demo passes on the clean tree; patch applies; the repository's
suite passes with the patch; the demo fails with the patch; then the listed checks (default: the property's own) are run at quick
tier with VERIF_CIW_PATH / VERIF_OUT pointing at scratch dirs.  Kept as /verif/seeded/<name>/{patch.diff, demo.py, meta.json}."""
import json
import os
import shutil
import subprocess
import sys
import tempfile
import time


def sh(args, cwd=None, env=None, timeout=1800):
    r = subprocess.run(args, cwd=cwd, env=env, capture_output=True, text=True, timeout=timeout)
    return r.returncode, r.stdout, r.stderr


def main(argv):
    pid, k, src = argv[0], argv[1], argv[2]
    checks = [pid]
    if "--checks" in argv:
        checks = argv[argv.index("--checks") + 1].split(",")
    name = "%s_%s" % (pid, k)
    if "--name" in argv:
        name = argv[argv.index("--name") + 1]
    patch = os.path.join(src, "patch%s.diff" % k)
    demo = os.path.join(src, "demo%s.py" % k)
    meta_txt = open(os.path.join(src, "meta%s.txt" % k)).read() if os.path.exists(os.path.join(src, "meta%s.txt" % k)) else ""
    tmp = tempfile.mkdtemp(prefix="ciwseed_")
    out = tempfile.mkdtemp(prefix="ciwout_")
    wt = os.path.join(tmp, "wt")
    meta = {"property": pid, "variant": k, "needs_to_manifest": meta_txt.strip(), "ran": [], "confirmed": False}
    try:
        sh(["git", "-C", "/repo", "worktree", "add", "-q", "--detach", wt, "HEAD"])
        meta["repo_head"] = sh(["git", "-C", "/repo", "rev-parse", "--short", "HEAD"])[1].strip()
        src_text = open(demo).read().replace("/tmp/wt_%s" % pid, wt)      # some demos assert where ciw was imported from
        open(os.path.join(wt, "demo.py"), "w").write(src_text)
        rc0, o0, e0 = sh(["/venv/bin/python", "demo.py"], cwd=wt, timeout=600)
        meta["ran"].append("clean tree: python demo.py -> exit %d" % rc0)
        rc, o, e = sh(["git", "-C", wt, "apply", patch])
        if rc != 0:
            meta["ran"].append("git apply failed: " + e[:300])
            print(json.dumps(meta, indent=1))
            return 3
        rcs, os_, es = sh(["/venv/bin/python", "-m", "pytest", "-q", "-p", "no:cacheprovider", "ciw/tests"], cwd=wt)
        last = os_.strip().splitlines()[-1] if os_.strip() else es[-200:]
        meta["ran"].append("patched tree: pytest ciw/tests -> %s" % last)
        rc1, o1, e1 = sh(["/venv/bin/python", "demo.py"], cwd=wt, timeout=600)
        meta["ran"].append("patched tree: python demo.py -> exit %d (%s)" % (rc1, (e1.strip().splitlines() or o1.strip().splitlines() or [""])[-1][:200]))
        meta["confirmed"] = (rc0 == 0 and rcs == 0 and rc1 != 0)
        env = dict(os.environ, VERIF_CIW_PATH=wt, VERIF_OUT=out, PYTHONHASHSEED="0")
        meta["checks"] = {}
        for c in checks:
            t0 = time.time()
            r, so, se = sh(["/venv/bin/python", "-m", "vf.runner", c, "quick"], cwd="/verif", env=env)
            viol = [l for l in so.splitlines() if l.startswith("VIOLATION")]
            meta["checks"][c] = {"exit": r, "wall_s": round(time.time() - t0, 1),
                                 "clauses": sorted(set(l.split("clause=")[1].split(" ")[0] + "@" + l.split("site=")[1].split(" ")[0] for l in viol if "clause=" in l))[:8]}
            meta["ran"].append("patched tree: ./check %s quick -> exit %d" % (c, r))
            if r == 2:
                meta["checks"][c]["stderr"] = se[-600:]
        meta["detected_by"] = [c for c, v in meta["checks"].items() if v["exit"] == 1]
        dst = os.path.join("/verif/seeded", name)
        os.makedirs(dst, exist_ok=True)
        shutil.copy(patch, os.path.join(dst, "patch.diff"))
        shutil.copy(demo, os.path.join(dst, "demo.py"))
        json.dump(meta, open(os.path.join(dst, "meta.json"), "w"), indent=1)
        print(name, "confirmed=%s" % meta["confirmed"], "detected_by=%s" % meta["detected_by"],
              {c: v["clauses"][:3] for c, v in meta["checks"].items()})
        for l in meta["ran"][:4]:
            print("   ", l)
    finally:
        sh(["git", "-C", "/repo", "worktree", "remove", "--force", wt])
        shutil.rmtree(tmp, ignore_errors=True)
        shutil.rmtree(out, ignore_errors=True)
    return 0


if __name__ == "__main__":
    sys.exit(main(sys.argv[1:]))
