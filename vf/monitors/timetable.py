"""C12 -- server schedules and slotted services follow the declared cyclic timetable."""
from collections import defaultdict

from .. import observe as O
from .journey import moving


class Timetable(object):
    """Closed form of a cyclic timetable; dates use the same expression as the code so they compare exactly."""

    def __init__(self, boundaries, values, offset):
        self.b = list(boundaries)
        self.v = list(values)
        self.offset = float(offset)
        self.n = len(self.b)
        self.cycle = self.b[-1]

    def date(self, k):
        """End date of shift k / date of slot k (k = 0, 1, ...)."""
        return self.offset + self.b[k % self.n] + (k // self.n) * self.cycle

    def value(self, k):
        return self.v[k % self.n]

    def locate(self, t):
        """(k, boundary?) where shift k contains t: date(k-1) <= t < date(k), date(-1) = offset.  k = -1 before the offset."""
        t = float(t)
        if t < self.offset:
            return -1, False
        k = 0
        if self.cycle > 0:
            k = max(0, int((t - self.offset) / self.cycle) * self.n - self.n)
        while self.date(k) <= t:
            k += 1
        start = self.offset if k == 0 else self.date(k - 1)
        return k, (start == t)

    def servers_allowed(self, t):
        """Set of on-duty server counts acceptable at instant t (both neighbours exactly at a boundary)."""
        k, onb = self.locate(t)
        if k == -1:
            return {0}
        out = {self.value(k)}
        if onb:
            out.add(self.value(k - 1) if k > 0 else 0)
        return out

    def slot_index(self, t):
        """k with date(k) == t, or None."""
        t = float(t)
        if t < self.offset:
            return None
        k = 0
        if self.cycle > 0:
            k = max(0, int((t - self.offset) / self.cycle) * self.n - self.n)
        while self.date(k) < t:
            k += 1
        return k if self.date(k) == t else None


class ScheduleMonitor(O.Monitor):
    name = "timetable"
    P = "C12"

    def __init__(self, spec):
        self.spec = spec

    def start(self, Q):
        self.k = 0
        self.tt = {}
        self.kind = {}
        for i, nd in enumerate(self.spec["nodes"]):
            s = nd["servers"]
            if s["kind"] == "schedule":
                self.tt[i + 1] = Timetable(s["ends"], s["numbers"], s.get("offset", 0.0))
                self.kind[i + 1] = "schedule"
            elif s["kind"] == "slotted":
                self.tt[i + 1] = Timetable(s["slots"], s["sizes"], s.get("offset", 0.0))
                self.kind[i + 1] = "slotted"
        self.activity = {"shift_changes_with_customers": 0, "zero_shift_with_queue": 0, "interruptions": 0, "overtime_servers": 0,
                         "slots_with_excess_demand": 0, "slot_starts": 0, "restarts_before_fresh": 0, "cycles_completed": 0,
                         "slot_interruptions": 0}
        self.live_before = {}
        self.servers = {}      # id(server) -> dict(node, born, sid, sched_end)
        self.expected_overtime = defaultdict(list)
        self.nrec = {}
        for nid in self.tt:
            self._scan_servers(Q, Q.nodes[nid], "init")

    # ------------------------------------------------------------------
    def before(self, Q, node, etype):
        nid = getattr(node, "id_number", 0)
        if nid in self.tt:
            cs = O.customers(node)
            self.live_before[nid] = set(id(i) for i in cs if O.live(node, i))
            self.n_before = len(cs)

    def _scan_servers(self, Q, nd, etype):
        """Own bookkeeping of server lifetimes at a scheduled node (non-pre-emptive overtime)."""
        nid = nd.id_number
        t = Q.current_time
        tt = self.tt[nid]
        alive = set()
        for s in nd.servers:
            alive.add(id(s))
            if id(s) not in self.servers:
                k, _ = tt.locate(s.start_date)
                self.servers[id(s)] = {"node": nid, "born": s.start_date, "sid": s.id_number, "sched_end": tt.date(k) if k >= 0 else tt.offset,
                                       "obj": s}
        for key, st in list(self.servers.items()):
            if st["node"] == nid and key not in alive:
                self.expected_overtime[nid].append(float(t) - st["sched_end"])
                if float(t) > st["sched_end"]:
                    self.activity["overtime_servers"] += 1
                del self.servers[key]

    def after(self, Q, node, etype, nxt):
        t = Q.current_time
        rep = lambda clause, d: Q.report(self.P, "C12." + clause, etype, d)
        active = getattr(node, "id_number", 0)
        for nid, tt in self.tt.items():
            nd = Q.nodes[nid]
            ndspec = self.spec["nodes"][nid - 1]
            pre = ndspec["servers"].get("preemption", False)
            cs = O.customers(nd)
            if self.kind[nid] == "schedule":
                onduty = sum(1 for s in nd.servers if not s.offduty)
                allowed = tt.servers_allowed(t)
                if onduty not in allowed:
                    rep("servers-on-duty-follow-the-timetable", {"node": nid, "on_duty": onduty, "timetable": sorted(allowed), "now": O._num(t)})
                if nd.c not in allowed:
                    rep("servers-on-duty-follow-the-timetable", {"node": nid, "c": nd.c, "timetable": sorted(allowed), "now": O._num(t)})
                self._scan_servers(Q, nd, etype)
                # nobody is served without a server of the roster: customers whose service is running (by their own attributes) hold
                # distinct servers that are present at the node
                claimed = [i for i in cs if i.service_start_date is not False]
                held = set(id(i.server) for i in claimed if any(i.server is s_ for s_ in nd.servers))
                if len(held) < len(claimed):
                    rep("service-only-on-a-server-of-the-roster", {"node": nid, "in_service": [i.id_number for i in claimed],
                                                                   "servers_present": len(nd.servers), "now": O._num(t)})
                if etype == "shift_change" and active == nid:
                    k, onb = tt.locate(t)
                    if not onb:
                        rep("shift-change-at-a-boundary", {"node": nid, "now": O._num(t)})
                    if cs:
                        self.activity["shift_changes_with_customers"] += 1
                    if k >= tt.n * 3:
                        self.activity["cycles_completed"] = max(self.activity["cycles_completed"], k // tt.n)
                    was_live = self.live_before.get(nid, set())
                    if pre and pre != "reroute":
                        # every customer that was in service at the shift end has an interrupted record with exit == boundary
                        for ind in cs:
                            if id(ind) in was_live:
                                r = ind.data_records[-1] if ind.data_records else None
                                ok = (r is not None and r.record_type == "interrupted service" and r.exit_date == t and r.node == nid)
                                if not ok:
                                    rep("in-service-at-shift-end-is-interrupted-exactly-then", {"node": nid, "customer": ind.id_number,
                                                                                                "last_record": None if r is None else [r.record_type, O._num(r.exit_date)]})
                                else:
                                    self.activity["interruptions"] += 1
                    if pre == "reroute":
                        for key in was_live:
                            pass
                if tt.servers_allowed(t) == {0} and any(not O.live(nd, i) for i in cs):
                    self.activity["zero_shift_with_queue"] += 1
            else:
                if etype == "slotted_service" and active == nid:
                    k = tt.slot_index(t)
                    if k is None:
                        rep("slot-event-at-a-slot-instant", {"node": nid, "now": O._num(t)})
                        continue
                    size = tt.value(k)
                    before = self.live_before.get(nid, set())
                    started = [i for i in cs if O.live(nd, i) and i.service_start_date == t and id(i) not in before]
                    restarted = [i for i in cs if O.live(nd, i) and i.service_start_date == t and id(i) in before]
                    nstart = len(started) + len(restarted)
                    self.activity["slot_starts"] += nstart
                    waiting_before = self.n_before - len(before)
                    if waiting_before > size:
                        self.activity["slots_with_excess_demand"] += 1
                    capacitated = ndspec["servers"].get("capacitated", False)
                    if nstart > size:
                        rep("at-most-slot-size-starts-per-slot", {"node": nid, "slot": k, "size": size, "starts": nstart})
                    if capacitated:
                        B = len(before)
                        if nstart > max(size - B, 0) and not pre:
                            rep("capacitated-slot-starts-bounded-by-free-capacity", {"node": nid, "slot": k, "size": size, "in_service_before": B, "starts": nstart})
                        if pre:
                            now_live = sum(1 for i in cs if O.live(nd, i))
                            if now_live > max(size, 0) and now_live > 0:
                                rep("capacitated-preemptive-slot-leaves-at-most-size-in-service", {"node": nid, "slot": k, "size": size, "in_service_after": now_live})
                            self.activity["slot_interruptions"] += sum(1 for i in cs if id(i) in before and not O.live(nd, i))
                    else:
                        exp = min(size, waiting_before)
                        if nstart != exp:
                            rep("slot-starts-min-of-size-and-waiting", {"node": nid, "slot": k, "size": size, "waiting": waiting_before, "starts": nstart})
                    if k >= tt.n * 3:
                        self.activity["cycles_completed"] = max(self.activity["cycles_completed"], k // tt.n)
                else:
                    # between slot events nobody may start service at a slotted node
                    before = self.live_before.get(nid) if active == nid else None
                    for i in cs:
                        if O.live(nd, i) and i.service_start_date == t and tt.slot_index(t) is None:
                            rep("services-start-only-at-slot-instants", {"node": nid, "customer": i.id_number, "start": O._num(t)})
        # starts observed at attach time: no start while zero servers are scheduled; interrupted before fresh
        log = Q.obslog
        while self.k < len(log):
            e = log[self.k]
            self.k += 1
            if e[0] != "attach":
                continue
            _, ta, nid, ind, server, cands, restart = e
            if nid not in self.tt or self.kind[nid] != "schedule":
                continue
            allowed = self.tt[nid].servers_allowed(ta)
            ndspec = self.spec["nodes"][nid - 1]
            if allowed == {0} and not ndspec.get("prio_preempt"):
                rep("no-service-starts-while-zero-servers-scheduled", {"node": nid, "customer": ind.id_number, "now": O._num(ta)})
            pre = ndspec["servers"].get("preemption", False)
            if pre and pre != "reroute" and not ndspec.get("prio_preempt"):
                iw = [c for c in cands if c[3]]
                mine = [c for c in cands if c[2] is ind]
                if iw and mine and not mine[0][3]:
                    rep("interrupted-customers-restart-before-fresh-ones", {"node": nid, "started": ind.id_number,
                                                                           "interrupted_waiting": [c[0] for c in iw][:6]})
                elif mine and mine[0][3]:
                    self.activity["restarts_before_fresh"] += 1

    # ------------------------------------------------------------------
    def finish(self, Q, res):
        rep = lambda clause, d: Q.report(self.P, "C12." + clause, "audit", d)
        inds = list(Q.nodes[-1].all_individuals)
        for nd in Q.transitive_nodes:
            inds.extend(O.customers(nd))
        for ind in inds:
            for r in ind.data_records:
                if r.node not in self.tt or r.record_type not in ("service", "interrupted service"):
                    continue
                tt = self.tt[r.node]
                ndspec = self.spec["nodes"][r.node - 1]
                if self.kind[r.node] == "schedule":
                    if tt.servers_allowed(r.service_start_date) == {0} and not ndspec.get("prio_preempt"):
                        rep("no-record-starts-inside-a-zero-server-shift", {"node": r.node, "customer": r.id_number, "start": O._num(r.service_start_date)})
                    if r.record_type == "interrupted service" and not ndspec["servers"].get("preemption") and not ndspec.get("prio_preempt"):
                        rep("non-preemptive-schedule-never-interrupts", {"node": r.node, "customer": r.id_number})
                    if r.record_type == "interrupted service" and ndspec["servers"].get("preemption") and not ndspec.get("prio_preempt"):
                        k, onb = tt.locate(r.exit_date)
                        if not onb:
                            rep("interruption-exactly-at-a-shift-end", {"node": r.node, "customer": r.id_number, "exit": O._num(r.exit_date)})
                else:
                    if tt.slot_index(r.service_start_date) is None:
                        rep("services-start-only-at-slot-instants", {"node": r.node, "customer": r.id_number, "start": O._num(r.service_start_date)})
        # interrupted services at pre-emptive schedules / slots: resume / restart / resample bookkeeping against the logged samples
        if getattr(Q.built, "samples", None):
            from . import episodes

            def option_of(nid):
                nd = self.spec["nodes"][nid - 1]
                if nid not in self.tt or nd.get("ps"):
                    return None
                if nd.get("prio_preempt") and nd["servers"].get("preemption"):
                    return (nd["prio_preempt"], nd["servers"]["preemption"])
                if nd.get("prio_preempt"):
                    return None
                return nd["servers"].get("preemption") or None
            episodes.audit(Q, option_of, lambda clause, d: Q.report(self.P, "C12." + clause, "audit", d), self.activity)
        # overtime bookkeeping (non-pre-emptive schedules): node.overtime vs the monitor's own (death - scheduled end)
        if res.aborted:
            return
        for nid, tt in self.tt.items():
            ndspec = self.spec["nodes"][nid - 1]
            if self.kind[nid] != "schedule" or ndspec["servers"].get("preemption") or ndspec.get("prio_preempt"):
                continue
            nd = Q.nodes[nid]
            got = sorted(float(x) for x in nd.overtime)
            exp = sorted(self.expected_overtime[nid])
            if len(got) != len(exp) or any(abs(a - b) > 1e-9 for a, b in zip(got, exp)):
                rep("overtime-equals-detach-time-minus-shift-end", {"node": nid, "reported": got[:10], "expected": exp[:10]})
