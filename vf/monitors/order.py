"""C08 (service order) and C11 (pre-emptive priorities)."""
from collections import defaultdict
from math import isinf

from .. import observe as O
from .journey import moving


class ServiceOrder(O.Monitor):
    """At every service start (ObsNode.attach_server) the chosen customer is in the best priority class that has anyone waiting
    and, within it, is the one the discipline prescribes.  Arrival order is the monitor's own: (event index first seen in the
    queue of its current priority class, customer id)."""
    name = "serviceorder"
    P = "C08"

    def __init__(self, spec):
        self.spec = spec

    def start(self, Q):
        self.k = 0
        self.seq = {}           # id(ind) -> (node, priority, (event index, id number))
        self.activity = {"starts": 0, "multi_candidate_starts": 0, "multi_class_starts": 0, "lifo_siro_choices": 0,
                         "starts_after_unblock": 0, "starts_at_shift_change": 0, "starts_after_class_change": 0, "fifo_audited": 0}

    def before(self, Q, node, etype):
        self.slot_wait = None
        if etype == "slotted_service":
            nd = node
            self.slot_wait = [(i, i.priority_class, O._interrupted_waiting(nd, i) or bool(i.server)) for i in O.customers(nd) if not O.live(nd, i)]

    def slotted(self, Q, node, rep):
        """Service starts at a slot: the customers started must be the best of those that were waiting (interrupted ones first)."""
        nd = node
        nid = nd.id_number
        t = Q.current_time
        fresh = [(i, p) for i, p, iw in self.slot_wait if not iw]
        started = [i for i, p in fresh if O.live(nd, i) and i.service_start_date == t]
        left = [i for i, p in fresh if not (O.live(nd, i) and i.service_start_date == t) and any(x is i for x in O.customers(nd))]
        if not started:
            return
        self.activity["slot_starts_checked"] = self.activity.get("slot_starts_checked", 0) + len(started)
        prio = {id(i): p for i, p in fresh}
        disc = self.spec["nodes"][nid - 1].get("discipline", "FIFO")
        for a in started:
            for b in left:
                pa, pb = prio[id(a)], prio[id(b)]
                if pb < pa:
                    rep("highest-priority-class-first", {"node": nid, "chosen": a.id_number, "priority": pa, "left_waiting": [b.id_number, pb], "slot": True})
                    return
                if pa == pb and len(left) + len(started) > 1:
                    ka, kb = self._key(a, nid, Q.n_events), self._key(b, nid, Q.n_events)
                    if (disc == "FIFO" and kb < ka) or (disc == "LIFO" and kb > ka):
                        rep("discipline-within-class", {"node": nid, "discipline": disc, "chosen": a.id_number, "left_waiting": b.id_number,
                                                        "order": [ka, kb], "slot": True})
                        return
        if left:
            self.activity["multi_candidate_starts"] += 1

    def after(self, Q, node, etype, nxt):
        rep = lambda clause, d: Q.report(self.P, "C08." + clause, etype, d)
        ev = Q.n_events
        if etype == "slotted_service" and self.slot_wait is not None:
            self.slotted(Q, node, rep)
        # 1. (re)number customers: new at a node, or priority changed while queueing (joins the tail of its new class)
        for nd in Q.transitive_nodes:
            for ind in O.customers(nd):
                s = self.seq.get(id(ind))
                visit = (ind.arrival_date, sum(1 for r in ind.data_records if moving(r)))
                if s is None or s[0] != nd.id_number or s[1] != ind.priority_class or s[3] != visit:
                    # batch members of one arrival event enter in id order; customers entering one node in the same
                    # (non-arrival) event through an unblocking cascade do so in an order the monitor cannot see: tie
                    self.seq[id(ind)] = (nd.id_number, ind.priority_class, (ev, ind.id_number if etype == "arrival" else 0), visit)
        # 2. evaluate the starts logged during this event
        log = Q.obslog
        cc_inds = set()
        entries = []
        while self.k < len(log):
            e = log[self.k]
            self.k += 1
            if e[0] == "attach":
                entries.append(e)
            elif e[0] == "cc_wait":
                cc_inds.add(id(e[3]))
        for e in entries:
            _, t, nid, ind, server, cands, restart = e
            ndspec = self.spec["nodes"][nid - 1]
            if restart:
                continue            # restarts of schedule-interrupted customers are C12's subject
            cands = [c for c in cands if not c[3] or c[2] is ind]     # interrupted customers waiting for a server are not in the queue
            self.activity["starts"] += 1
            if etype == "shift_change":
                self.activity["starts_at_shift_change"] += 1
            if etype == "class_change":
                self.activity["starts_after_class_change"] += 1
            if etype in ("end_service", "renege") and Q.cur_event[1] != nid:
                self.activity["starts_after_unblock"] += 1
            # priority of each candidate *at the moment of the choice*: the cc_wait change happens before the attach
            pr = {}
            for cid, p, obj, _iw in cands:
                pr[id(obj)] = (p, obj)
            if id(ind) not in pr:
                rep("chosen-customer-was-waiting", {"node": nid, "customer": ind.id_number})
                continue
            best = min(p for p, _ in pr.values())
            mine = pr[id(ind)][0]
            if len(set(p for p, _ in pr.values())) > 1:
                self.activity["multi_class_starts"] += 1
            if mine != best:
                rep("highest-priority-class-first", {"node": nid, "chosen": ind.id_number, "priority": mine,
                                                     "waiting": sorted((p, o.id_number) for p, o in pr.values())[:8]})
                continue
            same = [o for p, o in pr.values() if p == best]
            if len(same) > 1:
                self.activity["multi_candidate_starts"] += 1
            disc = ndspec.get("discipline", "FIFO")
            keyf = lambda o: self._key(o, nid, ev)
            if disc == "FIFO":
                want = min(same, key=keyf)
            elif disc == "LIFO":
                want = max(same, key=keyf)
                self.activity["lifo_siro_choices"] += 1
            else:
                want = ind
                self.activity["lifo_siro_choices"] += 1
            if keyf(want) != keyf(ind):
                rep("discipline-within-class", {"node": nid, "discipline": disc, "chosen": ind.id_number, "expected": want.id_number,
                                                "order": [(keyf(o), o.id_number) for o in sorted(same, key=keyf)][:8]})

    def _key(self, o, nid, ev):
        s = self.seq.get(id(o))
        if s is None or s[0] != nid:
            return (ev, 0)
        return s[2]

    def finish(self, Q, res):
        # FIFO audit over records for nodes without class changes / pre-emption: no customer starts while an equal-or-higher
        # priority earlier arrival is still waiting
        spec = self.spec
        if any(nd.get("ccm") for nd in spec["nodes"]) or any(c.get("cct") for c in spec["classes"]):
            return
        prio = {c["name"]: c.get("priority", 0) for c in spec["classes"]}
        per = defaultdict(list)
        inds = list(Q.nodes[-1].all_individuals)
        for nd in Q.transitive_nodes:
            inds.extend(O.customers(nd))
        for ind in inds:
            for r in ind.data_records:
                if r.record_type == "service":
                    per[r.node].append((prio[r.customer_class], r.arrival_date, r.service_start_date, r.id_number))
        for nid, rows in per.items():
            ndspec = spec["nodes"][nid - 1]
            if (ndspec.get("discipline", "FIFO") != "FIFO" or ndspec["servers"]["kind"] not in ("int",) or ndspec.get("ps")
                    or ndspec.get("prio_preempt") or any(c.get("renege") and c["renege"][nid - 1] for c in spec["classes"])):
                continue
            rows.sort(key=lambda x: (O._num(x[2]), O._num(x[1])))
            self.activity["fifo_audited"] += 1
            for i, a in enumerate(rows):
                for b in rows[i + 1:]:
                    # b starts later than a: then a must not be an equal-or-lower priority *later* arrival than b
                    if b[2] > a[2] and b[0] <= a[0] and b[1] < a[1] and b[1] < a[2]:
                        # b (better or equal priority) arrived strictly before a and was still waiting when a started
                        Q.report(self.P, "C08.fifo-no-overtaking", "audit", {"node": nid, "started_first": a, "still_waiting": b})
                        break


class PreemptivePriorities(O.Monitor):
    name = "preemptive"
    P = "C11"

    def __init__(self, spec):
        self.spec = spec

    def start(self, Q):
        self.k = 0
        self.activity = {"preemptions": 0, "victim_among_several": 0, "preempted_twice": 0, "preempt_by_class_change": 0,
                         "reroutes": 0, "episodes_checked": 0}
        self.npre = defaultdict(int)
        self.nodes = [nd for nd in Q.transitive_nodes if self.spec["nodes"][nd.id_number - 1].get("prio_preempt")]

    def after(self, Q, node, etype, nxt):
        rep = lambda clause, d: Q.report(self.P, "C11." + clause, etype, d)
        t = Q.current_time
        for nd in self.nodes:
            if isinf(nd.c) or nd.slotted:
                continue
            cs = O.customers(nd)
            serving = [i for i in cs if O.live(nd, i) and not getattr(i.server, "offduty", False) and not i.is_blocked]
            waiting = [i for i in cs if not O.live(nd, i)]
            if any(O.live(nd, i) and getattr(i.server, "offduty", False) for i in cs):
                self.activity["states_with_overtime_service"] = self.activity.get("states_with_overtime_service", 0) + 1
            if serving and waiting:
                worst = max(i.priority_class for i in serving)
                best_w = min(i.priority_class for i in waiting)
                if best_w < worst:
                    rep("no-priority-inversion", {"node": nd.id_number, "waiting": sorted((i.priority_class, i.id_number) for i in waiting)[:5],
                                                  "in_service": sorted((i.priority_class, i.id_number) for i in serving)})
        log = Q.obslog
        while self.k < len(log):
            e = log[self.k]
            self.k += 1
            if e[0] != "preempt":
                continue
            _, tt, nid, victim, newcomer, insvc, was_blocked, srv = e
            self.activity["preemptions"] += 1
            if etype == "class_change":
                self.activity["preempt_by_class_change"] += 1
            self.npre[(victim.id_number, nid)] += 1
            if self.npre[(victim.id_number, nid)] == 2:
                self.activity["preempted_twice"] += 1
            worst = max(p for _, p, _ in insvc)
            cand = [(cid, p, s) for cid, p, s in insvc if p == worst]
            if len(insvc) > 1:
                self.activity["victim_among_several"] += 1
            vic = [x for x in insvc if x[0] == victim.id_number]
            if not vic:
                rep("victim-was-in-service", {"node": nid, "victim": victim.id_number})
                continue
            if vic[0][1] != worst:
                rep("victim-has-lowest-priority-in-service", {"node": nid, "victim": vic[0], "in_service": insvc})
            elif vic[0][2] != max(s for _, _, s in cand):
                rep("victim-is-most-recently-started", {"node": nid, "victim": vic[0], "candidates": cand})
            if not (newcomer.priority_class < vic[0][1]):
                rep("preemptor-has-strictly-higher-priority", {"node": nid, "victim": vic[0], "newcomer": [newcomer.id_number, newcomer.priority_class]})
            opt = self.spec["nodes"][nid - 1]["prio_preempt"]
            # (a reroute chain can move the victim on and interrupt it again elsewhere within the same event: look at all
            # records written at this instant, not only the last one)
            hit = [r for r in victim.data_records if r.record_type == "interrupted service" and r.exit_date == tt and r.node == nid]
            if not hit:
                last = victim.data_records[-1] if victim.data_records else None
                rep("interruption-is-recorded", {"node": nid, "victim": victim.id_number,
                                                 "last_record": None if last is None else [last.record_type, last.node, O._num(last.exit_date)]})
            if opt == "reroute":
                self.activity["reroutes"] += 1

    def finish(self, Q, res):
        """Per visit: episodes = interrupted records + final service record; compare with the logged samples."""
        from . import episodes

        def option_of(nid):
            nd = self.spec["nodes"][nid - 1]
            if nd["servers"].get("preemption") and nd.get("prio_preempt"):
                return (nd["prio_preempt"], nd["servers"]["preemption"])
            if nd["servers"].get("preemption"):
                return None
            return nd.get("prio_preempt") or None
        episodes.audit(Q, option_of, lambda clause, d: Q.report(self.P, "C11." + clause, "audit", d), self.activity)
