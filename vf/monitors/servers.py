"""C04 (server exclusivity, true utilisation) and C05 (work conservation)."""
from math import isinf

from .. import observe as O


def server_nodes(Q):
    """Ordinary finite-server nodes (fixed c or scheduled), not slotted, not PS."""
    return [nd for nd in Q.transitive_nodes if not O.is_ps(nd) and not isinf(nd.c) and not nd.slotted]


class Exclusivity(O.Monitor):
    name = "exclusivity"
    P = "C04"

    def __init__(self, spec):
        self.spec = spec

    def start(self, Q):
        self.activity = {"all_busy_with_queue": 0, "overtime_completions": 0}
        self.nodes = server_nodes(Q)
        self.srv = {}          # id(server) -> dict(obj, node, born, attached, since, cust, dead)
        self.sticky = {}
        for nd in self.nodes:
            ndspec = self.spec["nodes"][nd.id_number - 1]
            self.sticky[nd.id_number] = not ndspec.get("prio_preempt") and not ndspec["servers"].get("preemption")
        self.preemptive = any(nd.get("prio_preempt") or nd["servers"].get("preemption") for nd in self.spec["nodes"])
        # at pre-emptive schedule nodes a server may leave its customer only by interrupting it (recorded at that instant)
        self.must_interrupt = {}
        for nd in self.nodes:
            ndspec = self.spec["nodes"][nd.id_number - 1]
            pre = ndspec["servers"].get("preemption")
            self.must_interrupt[nd.id_number] = bool(pre) and pre != "reroute" and not ndspec.get("prio_preempt")
        self.scan(Q, "init", first=True)

    def after(self, Q, node, etype, nxt):
        self.scan(Q, etype)

    def scan(self, Q, site, first=False):
        t = Q.current_time
        rep = lambda clause, d: Q.report(self.P, "C04." + clause, site, d)
        for nd in self.nodes:
            cs = O.customers(nd)
            present = set(id(i) for i in cs)
            onduty = [s for s in nd.servers if not s.offduty]
            if len(onduty) != nd.c:
                rep("on-duty-servers-equal-c", {"node": nd.id_number, "on_duty": len(onduty), "c": nd.c})
            held = {}
            for s in nd.servers:
                c = s.cust
                if c is False or c is None:
                    if s.busy:
                        rep("busy-flag", {"node": nd.id_number, "server": s.id_number, "busy": True, "cust": None})
                    continue
                if not s.busy:
                    rep("busy-flag", {"node": nd.id_number, "server": s.id_number, "busy": False, "cust": c.id_number})
                if c.server is not s:
                    rep("attachment-bijective", {"node": nd.id_number, "server": s.id_number, "cust": c.id_number})
                if id(c) in held:
                    rep("one-server-per-customer", {"node": nd.id_number, "cust": c.id_number})
                held[id(c)] = s
                if id(c) not in present:
                    rep("server-holds-absent-customer", {"node": nd.id_number, "server": s.id_number, "cust": c.id_number})
            ids = [s.id_number for s in nd.servers]
            if len(set(ids)) != len(ids):
                rep("server-ids-unique", {"node": nd.id_number, "ids": ids})
            for i in cs:
                sv = i.server
                if sv is not False and sv is not None and sv is not True and getattr(sv, "cust", None) is i \
                        and i.service_start_date is not False and i.service_end_date is not False and not any(x is sv for x in nd.servers):
                    rep("customer-in-service-on-a-server-that-is-not-at-the-node", {"node": nd.id_number, "customer": i.id_number,
                                                                                    "server": getattr(sv, "id_number", None)})
                # the customer's side of the attachment: a customer whose service is running on a server of this node is that server's customer
                if sv is not False and sv is not None and sv is not True and i.service_start_date is not False and any(x is sv for x in nd.servers) \
                        and getattr(sv, "cust", None) is not i:
                    rep("two-customers-never-share-a-server", {"node": nd.id_number, "customer": i.id_number, "server": getattr(sv, "id_number", None),
                                                              "server_serves": getattr(getattr(sv, "cust", None), "id_number", None)})
            n_live = sum(1 for i in cs if O.live(nd, i))
            if n_live > len(nd.servers):
                rep("at-most-c-in-service", {"node": nd.id_number, "in_service": n_live, "servers": len(nd.servers)})
            if n_live == len(nd.servers) and len(cs) > n_live and len(nd.servers) > 0:
                self.activity["all_busy_with_queue"] += 1
            # stickiness + integration
            alive = set()
            for s in nd.servers:
                k = id(s)
                alive.add(k)
                st = self.srv.get(k)
                cur = s.cust if (s.cust is not False and s.cust is not None) else None
                if st is None:
                    st = self.srv[k] = {"obj": s, "node": nd.id_number, "born": s.start_date, "attached": 0.0, "since": None,
                                        "cust": None, "dead": None, "sid": s.id_number}
                if st["cust"] is not cur:
                    if st["cust"] is not None:
                        st["attached"] += float(t) - st["since"]
                        old = st["cust"]
                        if self.sticky[nd.id_number] and id(old) in present and not _revisit(old, t):
                            rep("server-stays-until-customer-leaves", {"node": nd.id_number, "server": s.id_number, "cust": old.id_number})
                    st["cust"] = cur
                    st["since"] = float(t) if cur is not None else None
            for k, st in self.srv.items():
                if st["node"] == nd.id_number and st["dead"] is None and k not in alive:
                    st["dead"] = float(t)
                    if st["cust"] is not None:
                        st["attached"] += float(t) - st["since"]
                        old = st["cust"]
                        if self.sticky[nd.id_number] and id(old) in present and not _revisit(old, t):
                            rep("server-stays-until-customer-leaves", {"node": nd.id_number, "server": st["sid"], "cust": old.id_number, "killed": True})
                        if self.must_interrupt[nd.id_number] and id(old) in present and not _revisit(old, t) and not O.live(nd, old):
                            r = old.data_records[-1] if old.data_records else None
                            if r is None or r.record_type != "interrupted service" or r.exit_date != t or r.node != nd.id_number:
                                rep("server-leaves-its-customer-only-by-interrupting-it", {"node": nd.id_number, "server": st["sid"], "cust": old.id_number,
                                                                                           "last_record": None if r is None else [r.record_type, O._num(r.exit_date)]})
                        st["cust"] = None

    def finish(self, Q, res):
        # records grouped by (node, server id): intervals [service_start, exit] never overlap
        per = {}
        inds = list(Q.nodes[-1].all_individuals)
        for nd in Q.transitive_nodes:
            inds.extend(O.customers(nd))
        node_ids = set(nd.id_number for nd in self.nodes)
        for ind in inds:
            for r in ind.data_records:
                if r.node in node_ids and r.record_type in ("service", "interrupted service") and r.server_id is not False:
                    per.setdefault((r.node, r.server_id), []).append((float(r.service_start_date), float(r.exit_date), r.id_number, float(r.arrival_date)))
        for key, ivs in per.items():
            ivs.sort()
            if len(ivs) >= 5:
                self.activity["servers_with_5_completions"] = self.activity.get("servers_with_5_completions", 0) + 1
            for a, b in zip(ivs, ivs[1:]):
                if a[2] == b[2] and a[3] == b[3]:
                    continue    # records of one visit of one customer: a blocked customer interrupted at a shift end is, by design,
                                # released with its original service interval restored (pinned by test_resuming_interruption_after_blockage)
                if b[0] < a[1] - 1e-12:
                    Q.report(self.P, "C04.service-intervals-of-one-server-overlap", "audit",
                             {"node": key[0], "server": key[1], "first": a, "second": b})
        for nd in self.nodes:
            if nd.overtime:
                self.activity["overtime_completions"] += len(nd.overtime)
        # utilisation: for completed simulate_until_max_time calls (one or several: stopping and continuing does not change the statistics),
        # with or without pre-emption (busy time = time attached to a customer, whether or not that service was later interrupted)
        steps = Q.plan_steps
        if res.calls_completed != len(steps) or not steps or any(st_[0] != "max_time" for st_ in steps) or res.aborted or res.budget_hit:
            return
        T = float(steps[-1][1])
        if len(steps) > 1:
            self.activity["utilisation_checked_after_several_stops"] = 1
        self.activity["utilisation_checked"] = 0
        for nd in self.nodes:
            att = life = 0.0
            for st in self.srv.values():
                if st["node"] != nd.id_number:
                    continue
                end = st["dead"] if st["dead"] is not None else T
                life += end - float(st["born"])
                a = st["attached"]
                if st["dead"] is None and st["cust"] is not None:
                    a += T - st["since"]
                att += a
            u = getattr(nd, "server_utilisation", "missing")
            if nd.c == 0 or life <= 0:
                if u is not None and nd.c == 0:
                    Q.report(self.P, "C04.utilisation-none-without-servers", "audit", {"node": nd.id_number, "reported": repr(u)})
                continue
            self.activity["utilisation_checked"] += 1
            exp = att / life
            if u == "missing" or u is None or abs(float(u) - exp) > 1e-9 or not (-1e-12 <= float(u) <= 1 + 1e-12):
                Q.report(self.P, "C04.utilisation-equals-attached-over-lifetime", "audit",
                         {"node": nd.id_number, "reported": repr(u), "expected": exp, "attached": att, "lifetime": life})


def _revisit(ind, t):
    """Customer is present in the node but in a *new* visit that began at this instant (self-loop)."""
    return ind.arrival_date == t and (ind.server is False or ind.service_start_date == t)


class WorkConservation(O.Monitor):
    name = "workconservation"
    P = "C05"

    def start(self, Q):
        self.activity = {"waited_then_served": 0}
        self.nodes = server_nodes(Q)
        self.full = {nd.id_number: [] for nd in self.nodes}      # (time, all on-duty servers occupied)

    def after(self, Q, node, etype, nxt):
        t = Q.current_time
        for nd in self.nodes:
            free = [s for s in nd.servers if not s.offduty and (s.cust is False or s.cust is None) and not s.busy]
            wait = [i for i in O.customers(nd) if not O.live(nd, i)]
            if free and wait:
                Q.report(self.P, "C05.no-free-server-while-a-customer-waits", etype,
                         {"node": nd.id_number, "free_servers": [s.id_number for s in free], "waiting": [i.id_number for i in wait][:6],
                          "stuck_with_dead_server": [i.id_number for i in wait if i.server not in (False, None, True)][:6]})
            L = self.full[nd.id_number]
            st = not free
            if L and L[-1][0] == t:
                L[-1] = (t, st)
            else:
                L.append((t, st))

    def finish(self, Q, res):
        import bisect
        inds = list(Q.nodes[-1].all_individuals)
        for nd in Q.transitive_nodes:
            inds.extend(O.customers(nd))
        times = {k: [x[0] for x in v] for k, v in self.full.items()}
        for ind in inds:
            # true waiting intervals of a visit: arrival -> first start, then interruption -> next start
            # (the waiting_time field of a record includes earlier interrupted service periods, see docs)
            since = None
            for r in ind.data_records:
                if r.node not in self.full or r.record_type not in ("service", "interrupted service"):
                    since = None
                    continue
                a = r.arrival_date if since is None or since[0] != (r.node, r.arrival_date) else since[1]
                b = r.service_start_date
                since = ((r.node, r.arrival_date), r.exit_date) if r.record_type == "interrupted service" else None
                if not (b > a):
                    continue
                if r.record_type == "service":
                    self.activity["waited_then_served"] += 1
                L, T = self.full[r.node], times[r.node]
                lo = bisect.bisect_left(T, a)
                hi = bisect.bisect_left(T, b)
                for k in range(lo, hi):
                    if not L[k][1]:
                        Q.report(self.P, "C05.waiting-period-covered-by-full-occupancy", "audit",
                                 {"node": r.node, "customer": r.id_number, "from": O._num(a),
                                  "start": O._num(b), "idle_at": O._num(L[k][0])})
                        break
