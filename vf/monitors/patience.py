"""C13 -- reneging and baulking happen exactly when the model says."""
from collections import defaultdict

from .. import observe as O
from .journey import moving


class Patience(O.Monitor):
    name = "patience"
    P = "C13"

    def __init__(self, spec):
        self.spec = spec

    def start(self, Q):
        self.k = 0          # cursor into built.samples
        self.pat = {}       # (ind id, node) -> (arrival a, patience p)  for the current visit
        self.j = 0          # cursor into obslog
        self.activity = {"reneges": 0, "patient_served": 0, "races": 0, "baulks": 0, "admitted_under_baulking": 0,
                         "baulk_p0": 0, "baulk_p1": 0, "baulk_interior": 0, "jockeys": 0}
        self.jockeyed = {}
        self.bq = 0
        self.uq = 0

    def _ingest(self, Q, present=None):
        log = Q.built.samples
        while self.k < len(log):
            tag, t, ind, v = log[self.k]
            self.k += 1
            if tag[0] == "ren":
                obj = (present or {}).get(ind)
                nmov = None if obj is None else sum(1 for r in obj.data_records if moving(r))
                self.pat[(ind, tag[1])] = (t, v, nmov)

    def after(self, Q, node, etype, nxt):
        present = {}
        for nd in Q.transitive_nodes:
            for ind in O.customers(nd):
                present[ind.id_number] = ind
        self._ingest(Q, present)
        t = Q.current_time
        rep = lambda clause, d: Q.report(self.P, "C13." + clause, etype, d)
        for nd in Q.transitive_nodes:
            for ind in O.customers(nd):
                key = (ind.id_number, nd.id_number)
                if key not in self.pat:
                    continue
                a, p, nmov = self.pat[key]
                if a != ind.arrival_date or nmov != sum(1 for r in ind.data_records if moving(r)):
                    continue            # patience of an earlier visit (zero-time self-loops re-enter at the same instant)
                if not O.live(nd, ind) and ind.service_start_date is False and not self._started(ind, nd, a):
                    due = a + p
                    if due < t:
                        rep("no-customer-waits-longer-than-its-patience", {"customer": ind.id_number, "node": nd.id_number,
                                                                           "arrival": O._num(a), "patience": p, "now": O._num(t)})
                    elif due == t:
                        self.activity["races"] += 1

    def _started(self, ind, nd, a):
        for r in reversed(ind.data_records):
            if r.node == nd.id_number and r.arrival_date == a and r.record_type == "interrupted service":
                return True
            if r.record_type in ("service", "renege"):
                break
        return False

    def after_call(self, Q, k, st, completed):
        self.audit(Q, st)

    def audit(self, Q, st):
        self._ingest(Q)
        rep = lambda clause, d: Q.report(self.P, "C13." + clause, "audit", d)
        inds = list(Q.nodes[-1].all_individuals)
        where = {}
        for nd in Q.transitive_nodes:
            for i in O.customers(nd):
                inds.append(i)
                where[i.id_number] = nd.id_number
        ren = served = jock = 0
        log = Q.built.samples
        samples = defaultdict(list)
        for tag, t, ind, v in log:
            if tag[0] == "ren":
                samples[(ind, tag[1])].append((t, v))
        for ind in inds:
            R = ind.data_records
            seen = defaultdict(int)
            for idx, r in enumerate(R):
                new_visit = idx == 0 or moving(R[idx - 1])
                if new_visit and self._has_patience(r.original_customer_class, r.node):
                    seen[(r.node, r.arrival_date)] += 1
                # the k-th visit that begins at this node at this instant (zero-time self-loops) owns the k-th sample drawn then
                ps = [x for x in samples.get((r.id_number, r.node), []) if x[0] == r.arrival_date][max(seen[(r.node, r.arrival_date)] - 1, 0):]
                if not self._has_patience(r.original_customer_class, r.node):
                    ps = []
                if r.record_type == "renege":
                    ren += 1
                    if not ps:
                        rep("renege-only-with-a-sampled-patience", {"customer": r.id_number, "node": r.node})
                        continue
                    a, p = ps[0]
                    if r.exit_date != a + p:
                        rep("renege-exactly-at-arrival-plus-patience", {"customer": r.id_number, "node": r.node, "arrival": O._num(a),
                                                                        "patience": p, "left_at": O._num(r.exit_date)})
                    # had not started service in this visit
                    if idx > 0 and R[idx - 1].node == r.node and R[idx - 1].arrival_date == r.arrival_date and R[idx - 1].record_type == "interrupted service":
                        rep("customer-in-service-never-reneges", {"customer": r.id_number, "node": r.node})
                    # destination: jockeying node or exit; and it is where the customer went
                    allowed = self._jockey_dests(r.customer_class, r.node)
                    if r.destination not in allowed:
                        rep("reneger-goes-to-its-jockeying-destination", {"customer": r.id_number, "node": r.node, "went": repr(r.destination), "allowed": sorted(allowed)})
                    if r.destination != -1:
                        jock += 1
                elif r.record_type in ("service", "interrupted service") and ps:
                    first = not (idx > 0 and R[idx - 1].node == r.node and R[idx - 1].arrival_date == r.arrival_date
                                 and R[idx - 1].record_type == "interrupted service")
                    if first:
                        a, p = ps[0]
                        if r.record_type == "service":
                            served += 1
                        if r.service_start_date > a + p:
                            rep("service-starts-within-patience", {"customer": r.id_number, "node": r.node, "arrival": O._num(a),
                                                                   "patience": p, "start": O._num(r.service_start_date)})
        self.activity["reneges"] = ren
        self.activity["patient_served"] = served
        self.activity["jockeys"] = jock

    def _has_patience(self, cname, nid):
        """Does a customer arriving at node nid in class cname draw a patience sample?  (only those visits consume one)"""
        for c in self.spec["classes"]:
            if c["name"] == cname:
                return bool(c.get("renege")) and c["renege"][nid - 1] is not None
        return False

    def _jockey_dests(self, cname, nid):
        # the renege record carries the class the customer has at that moment (after any class change while waiting);
        # the jockeying destination is decided by that class's routing object
        for c in self.spec["classes"]:
            if c["name"] != cname:
                continue
            r = c["routing"]
            if r["kind"] == "network":
                j = r["routers"][nid - 1].get("jockey")
                if j:
                    return set(d for d, p in zip(j["dests"], j["probs"]) if p > 0)
        return {-1}


class Baulking(O.Monitor):
    """Pairs every baulking-function call with the uniform variate Ciw drew for it and with the outcome."""
    name = "baulking"
    P = "C13"

    def __init__(self, spec, ulog):
        self.spec = spec
        self.ulog = ulog

    def start(self, Q):
        self.j = 0
        self.b = 0
        self.activity = {"baulks": 0, "admitted_under_baulking": 0, "baulk_p0": 0, "baulk_p1": 0, "baulk_interior": 0}

    def after(self, Q, node, etype, nxt):
        if etype != "arrival":
            return
        rep = lambda clause, d: Q.report(self.P, "C13." + clause, etype, d)
        calls = Q.built.baulks
        adm = {}
        log = Q.obslog
        while self.j < len(log):
            e = log[self.j]
            self.j += 1
            if e[0] == "admission":
                adm[e[3].id_number] = e
        while self.b < len(calls):
            tag, n, truth, p, ind_id, t = calls[self.b]
            u = self.ulog[self.b] if self.b < len(self.ulog) else None
            self.b += 1
            e = adm.get(ind_id)
            if e is None:
                rep("baulk-decision-observed", {"customer": ind_id})
                continue
            _, te, nid, ind, pop_node, pop_sys, at_exit, rectype = e[:8]
            if n != pop_node or truth != pop_node:
                rep("baulking-function-sees-true-population", {"customer": ind_id, "passed": n, "true": pop_node})
            baulked = at_exit and rectype == "baulk"
            if u is None:
                rep("uniform-draw-observed", {"customer": ind_id})
                continue
            if baulked != (u < p):
                rep("baulks-iff-draw-below-probability", {"customer": ind_id, "u": u, "p": p, "baulked": baulked})
            if p <= 0:
                self.activity["baulk_p0"] += 1
            elif p >= 1:
                self.activity["baulk_p1"] += 1
            else:
                self.activity["baulk_interior"] += 1
            if baulked:
                self.activity["baulks"] += 1
                R = ind.data_records
                if len(R) != 1 or R[0].queue_size_at_arrival != pop_node or not (R[0].arrival_date == R[0].exit_date == te) or R[0].node != nid:
                    rep("baulk-record", {"customer": ind_id, "records": [[r.record_type, r.node, r.queue_size_at_arrival] for r in R], "true_population": pop_node})
            else:
                self.activity["admitted_under_baulking"] += 1
                if at_exit or ind.node != nid:
                    rep("non-baulker-is-admitted", {"customer": ind_id, "at_exit": at_exit})
        if len(self.ulog) != len(calls):
            rep("one-uniform-draw-per-baulking-decision", {"draws": len(self.ulog), "calls": len(calls)})
