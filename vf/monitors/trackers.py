"""C17 -- state trackers equal the true configuration."""
from .. import observe as O


class TrackerTruth(O.Monitor):
    name = "trackertruth"
    P = "C17"

    def __init__(self, spec):
        self.spec = spec
        self.ts = spec["tracker"]

    def start(self, Q):
        self.order = []          # currently blocked customers in blocking order: (ind, node, dest)
        self.activity = {"state_changes": 0, "blocked_seen": 0, "cc_after": 0, "cc_waiting": 0, "max_blocked": 0}
        self.names = sorted(c["name"] for c in self.spec["classes"])
        st = self.truth(Q)
        self.log = [[0.0, st]]
        if Q.statetracker.hash_state() != st:
            Q.report(self.P, "C17.tracked-state-equals-true-state", "init", {"tracker": repr(Q.statetracker.hash_state()), "truth": repr(st)})
        self.timestamps = True

    def update_order(self, Q):
        present = {}
        for nd in Q.transitive_nodes:
            for i in O.customers(nd):
                if i.is_blocked:
                    present[id(i)] = (i, nd.id_number, i.destination)
        self.order = [x for x in self.order if id(x[0]) in present and present[id(x[0])][1] == x[1] and x[0].is_blocked and x[3] == x[0].arrival_date]
        have = set(id(x[0]) for x in self.order)
        new = [v for k, v in present.items() if k not in have]
        new.sort(key=lambda v: v[0].id_number)
        for v in new:
            self.order.append((v[0], v[1], v[2], v[0].arrival_date))
        self.activity["max_blocked"] = max(self.activity["max_blocked"], len(self.order))
        if new:
            self.activity["blocked_seen"] += len(new)

    def truth(self, Q):
        k = self.ts["kind"]
        nodes = Q.transitive_nodes
        pops = [len(O.customers(nd)) for nd in nodes]
        if k == "SystemPopulation":
            return sum(pops)
        if k == "NodePopulation":
            return tuple(pops)
        if k == "NodePopulationSubset":
            return tuple(pops[i] for i in self.ts["nodes"])
        if k == "GroupedNodePopulation":
            return tuple(sum(pops[i] for i in g) for g in self.ts["groups"])
        if k == "NodeClassMatrix":
            order = self.ts.get("order") or self.names
            idx = {c: i for i, c in enumerate(order)}
            m = [[0] * len(self.names) for _ in nodes]
            for j, nd in enumerate(nodes):
                for ind in O.customers(nd):
                    m[j][idx[ind.customer_class]] += 1
            return tuple(tuple(r) for r in m)
        if k == "NaiveBlocking":
            out = []
            for nd in nodes:
                cs = O.customers(nd)
                b = sum(1 for i in cs if i.is_blocked)
                out.append((len(cs) - b, b))
            return tuple(out)
        if k == "MatrixBlocking":
            n = len(nodes)
            m = [[[] for _ in range(n)] for _ in range(n)]
            for rank, (ind, src, dest, _a) in enumerate(self.order):
                m[src - 1][dest - 1].append(rank + 1)
            return (tuple(tuple(tuple(c) for c in row) for row in m), tuple(pops))
        raise ValueError(k)

    def after(self, Q, node, etype, nxt):
        self.update_order(Q)
        st = self.truth(Q)
        got = Q.statetracker.hash_state()
        if got != st:
            Q.report(self.P, "C17.tracked-state-equals-true-state", etype, {"tracker": repr(got)[:300], "truth": repr(st)[:300], "kind": self.ts["kind"]})
        if _has_negative(got):
            Q.report(self.P, "C17.counts-never-negative", etype, {"tracker": repr(got)[:300]})
        if Q.cur_step[0] in ("max_time", "max_customers"):
            if st != self.log[-1][1]:
                self.log.append([Q.current_time, st])
                self.activity["state_changes"] += 1
        if etype == "class_change":
            self.activity["cc_waiting"] += 1

    def finish(self, Q, res):
        if res.aborted or res.budget_hit or res.stopped:
            return      # the budget exception pre-empts the loop's timestamp() call for the last event
        H = Q.statetracker.history
        rep = lambda clause, d: Q.report(self.P, "C17." + clause, "audit", d)
        for a, b in zip(H, H[1:]):
            if b[0] < a[0]:
                rep("history-timestamps-non-decreasing", {"a": [O._num(a[0])], "b": [O._num(b[0])]})
                break
            if a[1] == b[1]:
                rep("history-lists-each-change-once", {"at": O._num(b[0]), "state": repr(b[1])[:200]})
                break
        if Q.cur_step[0] in ("max_time", "max_customers") and not Q.violations:
            mine = [[float(t), s] for t, s in self.log]
            theirs = [[float(t), s] for t, s in H]
            if mine != theirs:
                k = 0
                while k < min(len(mine), len(theirs)) and mine[k] == theirs[k]:
                    k += 1
                rep("history-equals-independent-change-log", {"first_difference_at_index": k, "tracker": repr(theirs[k:k + 2])[:300],
                                                              "monitor": repr(mine[k:k + 2])[:300], "lengths": [len(theirs), len(mine)]})


def _has_negative(x):
    if isinstance(x, (tuple, list)):
        return any(_has_negative(y) for y in x)
    return isinstance(x, (int, float)) and x < 0
