"""C14 -- runs stop exactly at the requested horizon / customer count."""
from .. import observe as O

MOVING_END = ("service", "interrupted service")


def truth_count(Q, method, cache):
    """Counts recomputed from ground truth (exit list, records), not from Ciw's counters."""
    ex = Q.nodes[-1].all_individuals
    k = cache["exit_len"]
    for ind in ex[k:]:
        last = ind.data_records[-1].record_type if ind.data_records else None
        cache["finish"] += 1
        if last in MOVING_END:
            cache["complete"] += 1
        if last == "rejection":
            cache["rejected"] += 1
        if last == "baulk":
            cache["baulked"] += 1
    cache["exit_len"] = len(ex)
    created = cache["finish"] + sum(len(O.customers(nd)) for nd in Q.transitive_nodes)
    if method == "Complete":
        return cache["complete"]
    if method == "Finish":
        return cache["finish"]
    if method == "Arrive":
        return created
    if method == "Accept":
        return created - cache["rejected"] - cache["baulked"]
    raise ValueError(method)


def served_in_this_visit(nd, ind):
    return any(r.node == nd.id_number and r.arrival_date == ind.arrival_date and r.record_type == "interrupted service" for r in ind.data_records)


def truth_pending(nd):
    """Events the node owes its customers, read off the customers themselves (not off the node's own event table): the end of every
    live, unblocked service; the renege of every customer that has never been served in this visit and still waits at a node with
    finitely many servers; the class change of every such customer."""
    out = []
    finite = not O.isinf(nd.c)
    for ind in O.customers(nd):
        if O.live(nd, ind):
            if not ind.is_blocked and ind.service_end_date is not False:
                out.append((ind.service_end_date, "end_service", ind.id_number))
        elif not served_in_this_visit(nd, ind) and not ind.is_blocked:
            if finite and getattr(nd, "reneging", False) and ind.reneging_date is not False and not O.isinf(ind.reneging_date):
                out.append((ind.reneging_date, "renege", ind.id_number))
            if finite and getattr(nd, "dynamic_classes", False) and ind.class_change_date is not False and not O.isinf(ind.class_change_date):
                out.append((ind.class_change_date, "class_change", ind.id_number))
    return out


class Horizon(O.Monitor):
    name = "horizon"
    P = "C14"

    def start(self, Q):
        self.cache = {"exit_len": 0, "finish": 0, "complete": 0, "rejected": 0, "baulked": 0}
        self.counts = []          # truth count after each event of the current call
        self.call_events = 0
        self.cur_call = None
        self.activity = {}

    def before(self, Q, node, etype):
        k = getattr(Q, "call_index", 0)
        if k != self.cur_call:
            self.cur_call = k
            self.call_events = 0
            self.counts = []
        st = Q.cur_step
        t = Q.current_time
        if st[0] == "max_time":
            if not (t < st[1]):
                Q.report(self.P, "C14.no-event-at-or-after-T", etype, {"t": O._num(t), "T": st[1]})
        elif st[0] == "max_customers":
            c = truth_count(Q, st[2], self.cache)
            if c >= st[1]:
                Q.report(self.P, "C14.count-reached-before-last-event", etype, {"count": c, "n": st[1], "method": st[2]})

    def after(self, Q, node, etype, nxt):
        self.call_events += 1
        for nd in Q.transitive_nodes:
            # "every event scheduled before T is executed" presupposes that every node knows its next event
            saved = nd.next_event_date
            nd.update_next_event_date()
            if nd.next_event_date != saved and saved == saved:
                Q.report(self.P, "C14.every-pending-event-is-scheduled", etype, {"node": nd.id_number, "stored": O._num(saved),
                                                                                "recomputed": O._num(nd.next_event_date), "event": nd.next_event_type})
            # ... and that it has not forgotten one of its customers: the earliest event owed to a customer is not before the node's next event
            owed = truth_pending(nd)
            if owed:
                d = min(owed, key=lambda x: x[0])
                if d[0] < nd.next_event_date:
                    Q.report(self.P, "C14.every-pending-event-is-scheduled", etype, {"node": nd.id_number, "owed": [O._num(d[0]), d[1], d[2]],
                                                                                    "node_next_event": O._num(nd.next_event_date)})
                self.activity["owed_" + d[1]] = self.activity.get("owed_" + d[1], 0) + 1
        st = Q.cur_step
        if st[0] == "max_customers":
            self.counts.append(truth_count(Q, st[2], self.cache))

    def after_call(self, Q, k, st, completed):
        if k != self.cur_call:
            self.call_events = 0      # the call executed no event at all
            self.counts = []
        if st[0] == "max_time":
            T = st[1]
            for nd in Q.transitive_nodes:
                nd.update_next_event_date()      # the true schedule, recomputed from the nodes' state (a no-op when bookkeeping is right)
            dates = [nd.next_event_date for nd in Q.active_nodes]
            m = min(dates)
            if m < T:
                Q.report(self.P, "C14.event-before-T-not-executed", "return", {"next": O._num(m), "T": T})
            if Q.current_time != m:
                Q.report(self.P, "C14.final-clock-is-next-event", "return", {"clock": O._num(Q.current_time), "next": O._num(m)})
        elif st[0] == "max_customers":
            c = truth_count(Q, st[2], self.cache)
            if c < st[1]:
                Q.report(self.P, "C14.stopped-before-count", "return", {"count": c, "n": st[1], "method": st[2]})
            if self.counts:
                self.activity["maxcust_stop_checked"] = self.activity.get("maxcust_stop_checked", 0) + 1
        self.cur_call = None
