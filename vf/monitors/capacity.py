"""C06 (finite capacity, rejection iff full) and C07 (Type I blocking, FIFO unblocking)."""
from math import isinf

from .. import build as B
from .. import observe as O

INF = float("inf")


def spec_capacity(ndspec):
    """servers + queue capacity from the *spec* (not from Ciw); None when the documentation does not define it
    (scheduled / slotted nodes, S1)."""
    s = ndspec["servers"]
    cap = B.num(ndspec.get("cap", "inf"))
    if ndspec.get("ps"):
        return INF if (cap == INF or s["kind"] == "inf") else cap + s["c"]
    if s["kind"] == "inf":
        return INF
    if s["kind"] == "int":
        return cap + s["c"]
    return None


def upper_capacity(ndspec):
    s = ndspec["servers"]
    cap = B.num(ndspec.get("cap", "inf"))
    if s["kind"] == "schedule":
        return cap + max(s["numbers"])
    if s["kind"] == "slotted":
        return INF
    return spec_capacity(ndspec)


class Capacity(O.Monitor):
    name = "capacity"
    P = "C06"

    def __init__(self, spec, overfull_ok=False):
        self.spec = spec
        self.caps = [spec_capacity(nd) for nd in spec["nodes"]]
        self.upper = [upper_capacity(nd) for nd in spec["nodes"]]
        self.syscap = B.num(spec.get("system_capacity", "inf"))
        self.overfull_ok = overfull_ok       # re-routed (pre-empted) customers ignore queue capacities, as documented

    def start(self, Q):
        self.k = 0
        self.activity = {"rejections": 0, "admitted_at_capacity_minus_1": 0, "node_full_rejections": 0,
                         "system_full_rejections": 0, "admissions": 0, "cap0_rejections": 0}

    def after(self, Q, node, etype, nxt):
        rep = lambda clause, d: Q.report(self.P, "C06." + clause, etype, d)
        tot = 0
        for i, nd in enumerate(Q.transitive_nodes):
            n = len(O.customers(nd))
            tot += n
            if self.upper[i] is not None and n > self.upper[i] and self.overfull_ok:
                self.activity["overfull_nodes_seen"] = self.activity.get("overfull_nodes_seen", 0) + 1
            elif self.upper[i] is not None and n > self.upper[i]:
                rep("node-population-within-capacity", {"node": i + 1, "population": n, "capacity": self.upper[i]})
        if tot > self.syscap:
            rep("system-population-within-capacity", {"population": tot, "capacity": self.syscap})
        log = Q.obslog
        while self.k < len(log):
            e = log[self.k]
            self.k += 1
            if e[0] != "admission":
                continue
            _, t, nid, ind, pop_node, pop_sys, at_exit, rectype = e[:8]
            cap = self.caps[nid - 1]
            if cap is None:
                # scheduled / slotted node: which servers count towards the capacity is not documented (S1); clauses that hold
                # under every reading are still asserted
                qcap = B.num(self.spec["nodes"][nid - 1].get("cap", "inf"))
                rejected = (at_exit and rectype == "rejection")
                if rejected:
                    r = ind.data_records[-1]
                    if r.queue_size_at_arrival != pop_node:
                        rep("rejection-record-shows-population-seen", {"customer": ind.id_number, "recorded": r.queue_size_at_arrival, "true": pop_node})
                    if pop_node < qcap and pop_sys < self.syscap:
                        rep("rejected-iff-full", {"node": nid, "customer": ind.id_number, "population": pop_node, "queue_capacity": qcap,
                                                  "system_population": pop_sys, "rejected": True, "scheduled_node": True})
                    self.activity["rejections"] += 1
                elif not at_exit and self.upper[nid - 1] is not None and pop_node >= self.upper[nid - 1]:
                    rep("rejected-iff-full", {"node": nid, "customer": ind.id_number, "population": pop_node, "capacity_upper_bound": self.upper[nid - 1],
                                              "rejected": False, "scheduled_node": True})
                continue
            full_node = pop_node >= cap
            full_sys = pop_sys >= self.syscap
            should_reject = full_node or full_sys
            rejected = (at_exit and rectype == "rejection")
            if should_reject != rejected:
                rep("rejected-iff-full", {"node": nid, "customer": ind.id_number, "population": pop_node, "capacity": cap,
                                          "system_population": pop_sys, "system_capacity": self.syscap, "rejected": rejected,
                                          "record": rectype})
            if rejected:
                self.activity["rejections"] += 1
                self.activity["node_full_rejections"] += int(full_node)
                self.activity["system_full_rejections"] += int(full_sys and not full_node)
                if cap == 0:
                    self.activity["cap0_rejections"] += 1
                recs = ind.data_records
                r = recs[-1]
                if len(recs) != 1:
                    rep("rejection-is-only-record", {"customer": ind.id_number, "records": len(recs)})
                if r.queue_size_at_arrival != pop_node:
                    rep("rejection-record-shows-population-seen", {"customer": ind.id_number, "recorded": r.queue_size_at_arrival, "true": pop_node})
                if not (r.arrival_date == r.exit_date == t) or r.node != nid:
                    rep("rejection-record-dates", {"customer": ind.id_number, "record": [repr(x) for x in r], "now": O._num(t)})
            else:
                if at_exit:
                    cname = ind.customer_class
                    cs = [c for c in self.spec["classes"] if c["name"] == cname][0]
                    if rectype != "baulk" or not (cs.get("baulk") and cs["baulk"][nid - 1] is not None):
                        rep("admitted-unless-baulking", {"customer": ind.id_number, "record": rectype, "node": nid})
                else:
                    self.activity["admissions"] += 1
                    if ind.node != nid:
                        rep("admitted-to-its-node", {"customer": ind.id_number, "node": nid, "ind.node": ind.node})
                    if (cap != INF and pop_node == cap - 1) or (self.syscap != INF and pop_sys == self.syscap - 1):
                        self.activity["admitted_at_capacity_minus_1"] += 1


class Blocking(O.Monitor):
    """C07.  Keeps its own model of who is blocked to which destination, in blocking order."""
    name = "blocking"
    P = "C07"

    def __init__(self, spec, prop="C07"):
        self.spec = spec
        self.P = prop
        self.caps = [spec_capacity(nd) for nd in spec["nodes"]]

    def start(self, Q):
        self.k = 0
        self.model = {nd.id_number: [] for nd in Q.transitive_nodes}    # dest -> [ind objects] in blocking order
        self.blocked = {}       # id(ind) -> dict(ind, node, dest, t)
        self.activity = {"blocks": 0, "unblocks": 0, "max_blocked_to_one_node": 0, "cascades": 0, "self_loop_blocks": 0,
                         "unblock_by_renege": 0, "multi_server_blockers": 0}

    def capacity(self, Q, nid):
        c = self.caps[nid - 1]
        if c is None:       # scheduled / slotted destination: take Ciw's own figure (not asserted elsewhere)
            return Q.nodes[nid].node_capacity
        return c

    def after(self, Q, node, etype, nxt):
        t = Q.current_time
        rep = lambda clause, d: Q.report(self.P, "C07." + clause, etype, d)
        where = {}
        for nd in Q.transitive_nodes:
            for i in O.customers(nd):
                where[id(i)] = nd
        pops = {nd.id_number: len(O.customers(nd)) for nd in Q.transitive_nodes}
        for nid_, p_ in pops.items():
            cap_ = self.capacity(Q, nid_)
            if cap_ != float("inf") and p_ - cap_ > self.activity.get("max_overfull", 0):
                self.activity["max_overfull"] = p_ - cap_
        # completions observed in this event
        log = Q.obslog
        finished = []
        bypass = set()          # destinations entered in this event by customers that ignore capacities (re-routed / jockeying)
        entries = {}
        while self.k < len(log):
            e = log[self.k]
            self.k += 1
            if e[0] == "route" and e[8] == "next":
                finished.append(e)
            elif e[0] == "route":
                bypass.add(e[5])
            elif e[0] == "accept" and e[4]:
                entries.setdefault(e[2], []).append(e[3])       # blocked customers in the order in which they entered node e[2] in this event
        for e in finished:
            ind, src, dest = e[3], e[2], e[5]
            if id(ind) in self.blocked:
                rep("blocked-customer-completes-again", {"customer": ind.id_number, "node": src})
        # unblocks: modelled customers that are no longer blocked at their node
        released = {}
        for k, b in list(self.blocked.items()):
            ind = b["ind"]
            still = (where.get(k) is not None and where[k].id_number == b["node"] and ind.is_blocked
                     and ind.arrival_date == b["arrival"])
            if still:
                if ind.destination != b["dest"]:
                    rep("blocked-customer-keeps-destination", {"customer": ind.id_number, "was": b["dest"], "now": ind.destination})
                nd = where[k]
                if not isinf(nd.c) and not nd.slotted and not O.is_ps(nd) and not O.live(nd, ind):
                    rep("blocked-customer-holds-its-server", {"customer": ind.id_number, "node": nd.id_number})
                continue
            released.setdefault(b["dest"], []).append(b)
            del self.blocked[k]
        n_rel = 0
        for dest, bs in released.items():
            q = self.model[dest]
            # a blocked customer is let in only when there is room for it: right after the event the destination holds no more than its capacity
            # (unless capacity-ignoring customers entered it in the same event, or the released customer has already moved on)
            cap_d = self.capacity(Q, dest)
            if dest not in bypass and pops.get(dest, 0) > cap_d and any(where.get(id(b["ind"])) is not None and where[id(b["ind"])].id_number == dest for b in bs):
                rep("unblocked-only-into-free-space", {"destination": dest, "population": pops.get(dest), "capacity": cap_d,
                                                       "entered": [b["ind"].id_number for b in bs]})
            head = q[:len(bs)]
            order = [x for x in entries.get(dest, []) if any(x is b["ind"] for b in bs)]
            if len(order) >= 2:
                self.activity["several_unblocked_into_one_node_in_one_event"] = self.activity.get("several_unblocked_into_one_node_in_one_event", 0) + 1
                want = [x for x in q if any(x is y for y in order)]
                if [id(x) for x in want] != [id(x) for x in order]:
                    rep("unblocked-in-blocking-order-within-an-event", {"destination": dest, "entered_in_order": [x.id_number for x in order],
                                                                        "blocked_in_order": [x.id_number for x in want]})
            if set(id(b["ind"]) for b in bs) != set(id(x) for x in head):
                rep("longest-blocked-enters-first", {"destination": dest, "entered": sorted(b["ind"].id_number for b in bs),
                                                     "longest_blocked": [x.id_number for x in q[:len(bs) + 1]]})
            for b in bs:
                n_rel += 1
                ind = b["ind"]
                self.activity["unblocks"] += 1
                if etype == "renege":
                    self.activity["unblock_by_renege"] += 1
                q[:] = [x for x in q if x is not ind]
                nd_now = where.get(id(ind))
                at = nd_now.id_number if nd_now is not None else -1
                # ... unless it was pre-empted there and re-routed onwards within the same event (then it left an interruption record)
                moved_on = any(r.node == dest and r.exit_date == t and r.arrival_date == t and r.record_type == "interrupted service"
                               for r in ind.data_records[-3:])
                if at != dest and not moved_on:
                    rep("unblocked-customer-is-at-its-destination", {"customer": ind.id_number, "destination": dest, "at": at})
                # blocked for exactly the time until it moved
                recs = [r for r in ind.data_records if r.record_type == "service" and r.node == b["node"]]
                if recs:
                    r = recs[-1]
                    if r.exit_date != t or abs(float(r.time_blocked) - (float(t) - float(b["t"]))) > 1e-9 or r.service_end_date != b["t"]:
                        rep("time-blocked-is-time-until-move", {"customer": ind.id_number, "blocked_at": O._num(b["t"]), "moved_at": O._num(t),
                                                                "record_time_blocked": O._num(r.time_blocked), "record_end": O._num(r.service_end_date)})
        if n_rel >= 2:
            self.activity["cascades"] += 1
        self.activity["max_cascade"] = max(self.activity.get("max_cascade", 0), n_rel)
        # new blocks
        for nd in Q.transitive_nodes:
            for ind in O.customers(nd):
                if ind.is_blocked and id(ind) not in self.blocked:
                    dest = ind.destination
                    self.blocked[id(ind)] = {"ind": ind, "node": nd.id_number, "dest": dest, "t": t, "arrival": ind.arrival_date}
                    if dest in self.model:
                        self.model[dest].append(ind)
                    self.activity["blocks"] += 1
                    if dest == nd.id_number:
                        self.activity["self_loop_blocks"] += 1
                    if not isinf(nd.c) and nd.c > 1:
                        self.activity["multi_server_blockers"] += 1
                    fin = [e for e in finished if e[3] is ind]
                    if not fin:
                        rep("blocked-only-at-service-completion", {"customer": ind.id_number, "node": nd.id_number})
                    elif fin[-1][5] != dest:
                        rep("blocked-towards-routed-destination", {"customer": ind.id_number, "routed": fin[-1][5], "destination": dest})
        # finished customers either moved on or are blocked
        for e in finished:
            ind, src, dest = e[3], e[2], e[5]
            if dest != -1 and e[6][dest][0] >= self.capacity(Q, dest) and id(ind) not in self.blocked:
                rep("moves-on-only-if-destination-has-space", {"customer": ind.id_number, "node": src, "destination": dest,
                                                               "population_at_completion": e[6][dest][0], "capacity": self.capacity(Q, dest)})
            if id(ind) in self.blocked:
                continue
            nd_now = where.get(id(ind))
            at = nd_now.id_number if nd_now is not None else -1
            if at != dest or (at == src and not (ind.arrival_date == t)):
                rep("finished-customer-moves-on-or-is-blocked", {"customer": ind.id_number, "node": src, "destination": dest, "at": at})
        # never left blocked while there is space; model == Ciw's blocked queues
        for dest, q in self.model.items():
            self.activity["max_blocked_to_one_node"] = max(self.activity["max_blocked_to_one_node"], len(q))
            if q and pops[dest] < self.capacity(Q, dest):
                rep("never-blocked-while-destination-has-space", {"destination": dest, "population": pops[dest],
                                                                  "capacity": self.capacity(Q, dest), "blocked": [x.id_number for x in q]})
            nd = Q.nodes[dest]
            mine = [(self.blocked[id(x)]["node"], x.id_number) for x in q if id(x) in self.blocked]
            if list(nd.blocked_queue) != mine or nd.len_blocked_queue != len(mine):
                rep("blocked-queue-equals-blocking-order", {"destination": dest, "ciw": list(nd.blocked_queue)[:8], "model": mine[:8],
                                                            "len_blocked_queue": nd.len_blocked_queue})
