"""Per-visit audit of interrupted services (shared by C11 priority pre-emption and C12 schedule / slot pre-emption).

A visit's *episodes* are its interrupted-service records followed by its final service record.  With the logged service samples:
resume - one sample, total time served == it; restart - one sample, every episode's intended time == it; resample - one fresh
sample per episode, drawn at its start."""
from collections import defaultdict

from .. import observe as O
from .journey import moving


def _exact(x):
    """Rational value of a Decimal field or of a sampled float as exact mode reads it (Decimal(str(v)))."""
    from decimal import Decimal
    from fractions import Fraction
    try:
        return Fraction(x) if isinstance(x, Decimal) else Fraction(Decimal(str(x)))
    except (OverflowError, ValueError):
        return float(x)


def audit(Q, option_of, rep, activity, tol=1e-9, exact=False):
    """option_of(node id) -> 'resume' | 'restart' | 'resample' | 'reroute' | 'none' | None (node not audited).
    exact=True: rational arithmetic on Decimal fields and Decimal(str(sample)), no tolerance (C20)."""
    import builtins
    float = _exact if exact else builtins.float
    if exact:
        tol = 0
    samples = defaultdict(list)
    drawn_for = {}
    for tag, t, ind, v in Q.built.samples:
        if tag[0] == "srv":
            drawn_for[(ind, tag[1], len(samples[(ind, tag[1])]))] = tag[2]      # class whose distribution produced the k-th sample of (customer, node)
            samples[(ind, tag[1])].append((t, v))
    inds = list(Q.nodes[-1].all_individuals)
    for nd in Q.transitive_nodes:
        inds.extend(O.customers(nd))
    # which mechanism cut a service short: schedule / slot interruptions are logged by the observing node as ("interrupt", t, node, ind, ...)
    # and priority pre-emptions as ("preempt", t, node, victim, ...); several may fall on one instant, in log order
    mechs = defaultdict(list)
    for e in getattr(Q, "obslog", ()):
        if e[0] in ("interrupt", "preempt"):
            mechs[(e[3].id_number, e[2], e[1])].append(e[0] == "interrupt")
    for ind in inds:
        R = ind.data_records
        ptr = defaultdict(int)
        lost = set()
        # mechanism of every interruption record of this customer, matched with the observing node's log in order (several interruptions of
        # one customer at one node may fall on one instant, even in different visits)
        mech_of, used = {}, defaultdict(int)
        for x in R:
            if x.record_type == "interrupted service":
                key = (ind.id_number, x.node, x.exit_date)
                seq = mechs.get(key, [])
                mech_of[id(x)] = seq[used[key]] if used[key] < len(seq) else None
                used[key] += 1
        i = 0
        while i < len(R):
            r = R[i]
            if r.record_type not in ("service", "interrupted service"):
                i += 1
                continue
            ep = [r]
            j = i
            while not moving(R[j]) and j + 1 < len(R) and R[j + 1].node == r.node and R[j + 1].arrival_date == r.arrival_date \
                    and R[j + 1].record_type in ("service", "interrupted service"):
                j += 1
                ep.append(R[j])
            i = j + 1
            nid = r.node
            opt = option_of(nid)
            if not opt or nid in lost:
                continue
            if isinstance(opt, tuple):
                # node with pre-emptive priorities *and* a pre-emptive schedule: (priority option, schedule option).  A visit whose interruptions
                # all came from one mechanism follows that mechanism's option; visits interrupted by both are not audited
                cuts = [x for x in ep if x.record_type == "interrupted service"]
                mech = set(mech_of.get(id(x)) for x in cuts)
                if opt[0] == opt[1] or not cuts:
                    opt = opt[0]
                elif mech == {True}:
                    opt = opt[1]
                elif mech == {False}:
                    opt = opt[0]
                else:
                    activity["visits_interrupted_by_both_mechanisms"] = activity.get("visits_interrupted_by_both_mechanisms", 0) + 1
                    lost.add(nid)      # the number of samples this visit consumed is not determined: later visits of this customer here are not audited
                    continue
                activity["episodes_at_doubly_preemptive_nodes"] = activity.get("episodes_at_doubly_preemptive_nodes", 0) + (1 if cuts else 0)
            if len(ep) >= 2 and ep[-1].record_type == "service" and ep[-1].service_start_date == ep[-2].service_start_date \
                    and ep[-2].exit_date > ep[-2].service_start_date and ep[-1].service_end_date <= ep[-2].exit_date:
                # released while still interrupted (it was blocked at the shift end): the final record restores the original interval
                ep = ep[:-2] + [ep[-1]]
            junk = [(x.record_type, f, repr(getattr(x, f))) for x in ep for f in ("service_start_date", "service_time", "service_end_date", "exit_date")
                    if isinstance(getattr(x, f), (bool, str)) or getattr(x, f) is None]
            if junk:
                rep("episode-record-fields-are-numbers", {"customer": ind.id_number, "node": nid, "fields": junk[:4]})
                continue
            S_ = samples.get((ind.id_number, nid), [])
            p0 = ptr[nid]
            need = len(ep) if opt == "resample" else 1
            ss = S_[p0:p0 + need]
            ptr[nid] = p0 + need
            # the sample of an episode comes from the distribution of the class the customer has while that episode is served (an interruption
            # record carries that class; a final service record may carry the class after a class change at the end of service)
            for j_, x in enumerate(ep[:len(ss)] if opt == "resample" else ep[:1]):
                if x.record_type == "interrupted service" and drawn_for.get((ind.id_number, nid, p0 + j_)) not in (None, x.customer_class):
                    rep("sample-drawn-for-the-current-class", {"customer": ind.id_number, "node": nid, "class_served": x.customer_class,
                                                               "sampled_for": drawn_for.get((ind.id_number, nid, p0 + j_))})
                    break
            if len(ep) < 2 and ep[0].record_type == "service":
                if len(ss) != 1 or ss[0][0] != ep[0].service_start_date:
                    rep("one-sample-per-uninterrupted-service", {"customer": ind.id_number, "node": nid, "samples": ss, "start": O._num(ep[0].service_start_date)})
                elif abs(float(ep[0].service_end_date) - float(ep[0].service_start_date) - float(ss[0][1])) > tol:
                    rep("uninterrupted-service-lasts-its-sample", {"customer": ind.id_number, "node": nid, "sample": ss[0][1],
                                                                   "lasted": float(ep[0].service_end_date) - float(ep[0].service_start_date)})
                continue
            activity["episodes_checked"] = activity.get("episodes_checked", 0) + 1
            final = ep[-1] if ep[-1].record_type == "service" else None
            if len(ss) != need or ss[0][0] != ep[0].service_start_date:
                rep(opt + "-draws-" + ("a-fresh-sample-per-episode" if opt == "resample" else "one-sample"),
                    {"customer": ind.id_number, "node": nid, "samples": ss, "episode_starts": [O._num(x.service_start_date) for x in ep]})
                continue
            if opt == "resume":
                if final is not None:
                    # an interrupted episode serves until the interruption, or until its intended end if the customer had already finished
                    # and was blocked when its server left
                    served = sum(min(float(x.exit_date) - float(x.service_start_date), float(x.service_time)) for x in ep[:-1]) \
                        + float(final.service_end_date) - float(final.service_start_date)
                    if abs(served - float(ss[0][1])) > tol:
                        rep("resume-total-served-equals-requirement", {"customer": ind.id_number, "node": nid, "served": served, "requirement": ss[0][1]})
            elif opt == "restart":
                for x in ep:
                    dur = x.service_time if x.record_type == "interrupted service" else x.service_end_date - x.service_start_date
                    if abs(float(dur) - float(ss[0][1])) > tol:
                        rep("restart-gives-the-same-time-again", {"customer": ind.id_number, "node": nid, "episode_time": O._num(dur), "requirement": ss[0][1]})
                        break
            elif opt == "resample":
                for x, s_ in zip(ep, ss):
                    dur = x.service_time if x.record_type == "interrupted service" else x.service_end_date - x.service_start_date
                    if abs(float(dur) - float(s_[1])) > tol or s_[0] != x.service_start_date:
                        rep("resample-episode-uses-its-own-sample", {"customer": ind.id_number, "node": nid, "episode_time": O._num(dur), "sample": s_})
                        break
            elif opt == "reroute":
                for x in ep:
                    if x.record_type == "interrupted service" and x is not ep[-1]:
                        rep("rerouted-customer-has-no-further-episode-here", {"customer": ind.id_number, "node": nid})
