"""C02 -- causal monotone time and record arithmetic."""
from math import isnan

from .. import observe as O


def _isnan(x):
    try:
        return isnan(x)
    except Exception:
        return False


class TimeFlow(O.Monitor):
    name = "timeflow"
    P = "C02"

    def start(self, Q):
        self.nrec = {}            # id_number -> number of records already checked
        self.exit_len = 0
        self.prev_clock = None
        self.activity = {"records_checked": 0}

    def before(self, Q, node, etype):
        t = Q.current_time
        if t != node.next_event_date:
            Q.report(self.P, "C02.event-at-scheduled-date", etype, {"clock": O._num(t), "scheduled": O._num(node.next_event_date)})
        if self.prev_clock is not None and t < self.prev_clock:
            Q.report(self.P, "C02.clock-never-decreases", etype, {"clock": O._num(t), "previous": O._num(self.prev_clock)})

    def after(self, Q, node, etype, nxt):
        t = Q.current_time
        self.prev_clock = t
        for nd in Q.transitive_nodes:
            # every node must know its next event: recomputing it from the node's state must not change it
            saved = (nd.next_event_date, nd.next_event_type)
            nd.update_next_event_date()
            if nd.next_event_date != saved[0] and not (saved[0] != saved[0]):
                Q.report(self.P, "C02.next-event-date-is-up-to-date", etype, {"node": nd.id_number, "stored": O._num(saved[0]),
                                                                              "recomputed": O._num(nd.next_event_date), "event": nd.next_event_type})
        for nd in Q.active_nodes:
            d = nd.next_event_date
            if d < t:
                Q.report(self.P, "C02.no-event-scheduled-in-the-past", getattr(nd, "next_event_type", None) or "arrival",
                         {"clock": O._num(t), "scheduled": O._num(d), "node": getattr(nd, "id_number", 0), "after": etype})
        ex = Q.nodes[-1].all_individuals
        inds = list(ex[self.exit_len:])
        self.exit_len = len(ex)
        for nd in Q.transitive_nodes:
            inds.extend(O.customers(nd))
        for ind in inds:
            k = self.nrec.get(ind.id_number, 0)
            recs = ind.data_records
            if len(recs) > k:
                for r in recs[k:]:
                    self.check_record(Q, r, t, etype)
                self.nrec[ind.id_number] = len(recs)

    def check_record(self, Q, r, t, etype):
        self.activity["records_checked"] += 1
        bad = []
        ty = r.record_type
        for f in ("arrival_date", "waiting_time", "service_start_date", "service_time", "service_end_date", "time_blocked", "exit_date"):
            if isinstance(getattr(r, f), bool):
                bad.append("field-is-a-bool:" + f)
        try:
            if ty == "service":
                if not (r.arrival_date <= r.service_start_date):
                    bad.append("arrival<=start")
                if not (r.service_start_date <= r.service_end_date):
                    bad.append("start<=end")
                if not (r.service_end_date <= r.exit_date):
                    bad.append("end<=exit")
                if not (r.exit_date == t):
                    bad.append("exit==now")
                if not (r.waiting_time == r.service_start_date - r.arrival_date and r.waiting_time >= 0):
                    bad.append("waiting_time")
                if not (r.service_time == r.service_end_date - r.service_start_date and r.service_time >= 0):
                    bad.append("service_time")
                if not (r.time_blocked == r.exit_date - r.service_end_date and r.time_blocked >= 0):
                    bad.append("time_blocked")
            elif ty == "interrupted service":
                if not (r.arrival_date <= r.service_start_date <= r.exit_date):
                    bad.append("arrival<=start<=exit")
                if not (r.exit_date == t):
                    bad.append("exit==now")
                if not (r.waiting_time == r.service_start_date - r.arrival_date and r.waiting_time >= 0):
                    bad.append("waiting_time")
                if not (r.service_time >= 0):
                    bad.append("intended_service_time>=0")
            elif ty == "renege":
                if not (r.arrival_date <= r.exit_date):
                    bad.append("arrival<=exit")
                if not (r.exit_date == t):
                    bad.append("exit==now")
                if not (r.waiting_time == r.exit_date - r.arrival_date):
                    bad.append("waiting_time")
            elif ty in ("baulk", "rejection"):
                if not (r.arrival_date == r.exit_date == t):
                    bad.append("arrival==exit==now")
            else:
                bad.append("unknown-record-type")
        except TypeError as e:
            bad.append("non-numeric-field:" + str(e)[:60])
        for b in bad:
            Q.report(self.P, "C02.record." + ty.replace(" ", "_") + "." + b, etype,
                     {"record": [repr(x) for x in r], "now": O._num(t)})
