"""C10 -- sampled inputs honoured (audit over LogDist logs, the observing arrival node's log and the records)."""
from collections import defaultdict

from .. import observe as O


class SamplesAudit(O.Monitor):
    name = "samples"
    P = "C10"

    def __init__(self, spec):
        self.spec = spec

    def start(self, Q):
        self.activity = {}

    def finish(self, Q, res):
        if res.aborted:
            return
        rep = lambda clause, d: Q.report(self.P, "C10." + clause, "audit", d)
        spec = self.spec
        log = Q.built.samples
        arr = defaultdict(list)
        bat = defaultdict(list)
        srv = defaultdict(list)
        for tag, t, ind, v in log:
            if tag[0] == "arr":
                arr[(tag[1], tag[2])].append((t, v))
            elif tag[0] == "bat":
                bat[(tag[1], tag[2])].append((t, v))
            elif tag[0] == "srv":
                srv[tag[1]].append((tag[2], t, ind, v))
        events = defaultdict(list)
        for e in Q.obslog:
            if e[0] == "arrival_event":
                events[(e[2], e[3])].append((e[1], e[4], e[5]))
        n_streams = n_events = 0
        for c in spec["classes"]:
            for i, a in enumerate(c["arrival"]):
                key = (i + 1, c["name"])
                if a is None:
                    if events.get(key):
                        rep("no-arrivals-without-a-stream", {"stream": key})
                    continue
                n_streams += 1
                samples = arr.get(key, [])
                evs = events.get(key, [])
                n_events += len(evs)
                if len(samples) != len(evs) + 1:
                    rep("one-inter-arrival-sample-per-event-plus-one", {"stream": key, "samples": len(samples), "events": len(evs)})
                date = None
                for k, (t, created, scheduled) in enumerate(evs):
                    if k >= len(samples):
                        break
                    date = samples[k][1] if date is None else date + samples[k][1]
                    if t != date:
                        rep("arrival-at-partial-sum-of-samples", {"stream": key, "event": k, "time": O._num(t), "partial_sum": O._num(date)})
                        break
                    if k + 1 < len(samples) and samples[k + 1][0] != t:
                        rep("next-inter-arrival-sampled-at-the-arrival", {"stream": key, "event": k, "sampled_at": O._num(samples[k + 1][0]), "time": O._num(t)})
                bs = bat.get(key)
                has_batch = bool(c.get("batch")) and c["batch"][i] is not None
                for k, (t, created, scheduled) in enumerate(evs):
                    if has_batch or bs is not None:
                        if bs is None or k >= len(bs):
                            rep("one-batch-sample-per-arrival-event", {"stream": key, "event": k})
                            break
                        if bs[k][1] != created or bs[k][0] != t:
                            rep("batch-size-equals-sample", {"stream": key, "event": k, "created": created, "sampled": bs[k][1],
                                                              "sampled_at": O._num(bs[k][0]), "time": O._num(t)})
                            break
                    elif created != 1:
                        rep("batch-size-equals-sample", {"stream": key, "event": k, "created": created, "sampled": 1})
                        break
                if bs is not None and len(bs) != len(evs):
                    rep("one-batch-sample-per-arrival-event", {"stream": key, "samples": len(bs), "events": len(evs)})
        # services: every service start consumed exactly one sample drawn at that instant for that customer & class
        inds = list(Q.nodes[-1].all_individuals)
        for nd in Q.transitive_nodes:
            inds.extend(O.customers(nd))
        starts = defaultdict(list)        # node -> [(class, start, ind id, duration or None, ordinary?)]
        completed = 0
        for ind in inds:
            for r in ind.data_records:
                if r.record_type == "service":
                    starts[r.node].append((r.customer_class, r.service_start_date, r.id_number, r.service_end_date))
                    completed += 1
                elif r.record_type == "interrupted service":
                    starts[r.node].append((r.customer_class, r.service_start_date, r.id_number, None))
        for nd in Q.transitive_nodes:
            for ind in O.customers(nd):
                if ind.service_start_date is not False and ind.service_time is not False and O.live(nd, ind):
                    starts[nd.id_number].append((ind.customer_class if not getattr(ind, "is_blocked", False) else None,
                                                 ind.service_start_date, ind.id_number, None))
        for nd in Q.transitive_nodes:
            nid = nd.id_number
            if O.is_ps(nd):
                continue          # the service clause is stated for ordinary nodes; PS requirements are C19's subject
            S = sorted(srv.get(nid, []), key=lambda x: (x[2], O._num(x[1])))
            T = sorted(starts.get(nid, []), key=lambda x: (x[2], O._num(x[1])))
            if len(S) != len(T):
                rep("one-service-sample-per-service-start", {"node": nid, "samples": len(S), "starts": len(T),
                                                               "sample_keys": [(x[2], O._num(x[1])) for x in S][:12],
                                                               "start_keys": [(x[2], O._num(x[1])) for x in T][:12]})
                continue
            ordinary = not O.is_ps(nd)
            for s, st in zip(S, T):
                cls_s, t_s, ind_s, v = s
                cls_t, t_t, ind_t, end = st
                if ind_s != ind_t or t_s != t_t:
                    rep("service-sample-drawn-at-service-start", {"node": nid, "sample": [ind_s, O._num(t_s)], "start": [ind_t, O._num(t_t)]})
                    break
                if cls_t is not None and cls_s != cls_t:
                    rep("service-sample-for-current-class", {"node": nid, "customer": ind_s, "sampled_for": cls_s, "class": cls_t})
                if ordinary and end is not None and end != t_t + v:
                    rep("service-lasts-exactly-the-sample", {"node": nid, "customer": ind_s, "start": O._num(t_t), "sample": v, "end": O._num(end)})
        self.activity.update({"streams": n_streams, "arrival_events": n_events, "completed_services": completed})
