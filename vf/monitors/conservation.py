"""C01 -- customer conservation, evaluated on the object graph after every event."""
from .. import observe as O


class Conservation(O.Monitor):
    name = "conservation"
    P = "C01"

    def start(self, Q):
        self.exit_seen = {}       # id_number -> object
        self.exit_len = 0
        self.activity = {}
        self.check(Q, "init")

    def after(self, Q, node, etype, nxt):
        self.check(Q, etype)

    def after_call(self, Q, k, step, completed):
        self.check(Q, "return")

    def check(self, Q, site):
        rep = lambda clause, d: Q.report(self.P, "C01." + clause, site, d)
        ex = Q.nodes[-1]
        L = ex.all_individuals
        if len(L) < self.exit_len:
            rep("exit-only-grows", {"before": self.exit_len, "now": len(L)})
        for ind in L[self.exit_len:]:
            if ind.id_number in self.exit_seen:
                rep("exit-duplicate", {"id": ind.id_number})
            self.exit_seen[ind.id_number] = ind
        self.exit_len = len(L)
        if ex.number_of_individuals != len(L):
            rep("exit-count", {"reported": ex.number_of_individuals, "actual": len(L)})
        seen_obj = set()
        seen_ids = set()
        total = 0
        for nd in Q.transitive_nodes:
            cs = O.customers(nd)
            total += len(cs)
            if nd.number_of_individuals != len(cs):
                rep("node-count", {"node": nd.id_number, "reported": nd.number_of_individuals, "actual": len(cs)})
            if len(nd.all_individuals) != len(cs):
                rep("node-all-individuals", {"node": nd.id_number})
            for ind in cs:
                if id(ind) in seen_obj or ind.id_number in seen_ids:
                    rep("duplicate-in-nodes", {"id": ind.id_number, "node": nd.id_number})
                seen_obj.add(id(ind))
                seen_ids.add(ind.id_number)
                if ind.id_number in self.exit_seen:
                    rep("reappeared-after-exit", {"id": ind.id_number, "node": nd.id_number})
                if ind.node != nd.id_number:
                    rep("ind-node-attribute", {"id": ind.id_number, "node": nd.id_number, "ind.node": ind.node})
        N = Q.nodes[0].number_of_individuals
        if total + len(self.exit_seen) != N:
            rep("arrivals-equal-nodes-plus-exit", {"created": N, "in_nodes": total, "at_exit": len(self.exit_seen)})
        allids = seen_ids | set(self.exit_seen)
        if allids and (min(allids) < 1 or max(allids) > N):
            rep("ids-1..N", {"min": min(allids), "max": max(allids), "N": N})
        elif len(allids) != N and total + len(self.exit_seen) == N:
            rep("ids-1..N", {"distinct": len(allids), "N": N})
        try:
            sysn = Q.number_of_individuals
            # Simulation.number_of_individuals = (created - 1) - at exit: the population seen by the customer
            # currently being created; after an event it is total - 1 by construction.  Not asserted.
        except Exception:
            pass
