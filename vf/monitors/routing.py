"""C09 -- routing and class-change fidelity."""
from collections import defaultdict

from .. import observe as O


class Fidelity(O.Monitor):
    name = "fidelity"
    P = "C09"

    def __init__(self, spec):
        self.spec = spec
        self.cls = {c["name"]: c for c in spec["classes"]}
        self.prio = {c["name"]: c.get("priority", 0) for c in spec["classes"]}

    def start(self, Q):
        self.k = 0
        self.cycle_pos = defaultdict(int)     # (class, node) -> decisions so far
        self.created_class = {}               # ind id -> class at creation
        self.steps = defaultdict(int)         # ind id -> process decisions so far
        self.flex = {}                        # ind id -> remaining flexible route (model)
        self.activity = {"decisions": 0, "multi_choice_decisions": 0, "jsq_lb_unequal": 0, "zero_prob_alternative": 0,
                         "class_changes_after": 0, "process_steps": 0, "cycle_steps": 0}

    def after(self, Q, node, etype, nxt):
        rep = lambda clause, d: Q.report(self.P, "C09." + clause, etype, d)
        log = Q.obslog
        while self.k < len(log):
            e = log[self.k]
            self.k += 1
            if e[0] == "admission":
                ind = e[3]
                self.created_class.setdefault(ind.id_number, e[8])
            elif e[0] == "route":
                self.route(Q, e, rep)
            elif e[0] == "cc_after":
                _, t, nid, ind, before, after_ = e
                m = self.spec["nodes"][nid - 1].get("ccm")
                if m is None:
                    if before != after_:
                        rep("class-change-only-where-specified", {"node": nid, "from": before, "to": after_})
                else:
                    if before != after_:
                        self.activity["class_changes_after"] += 1
                    if not (m[before][after_] > 0):
                        rep("class-change-of-probability-zero", {"node": nid, "from": before, "to": after_, "row": m[before]})
        for nd in Q.transitive_nodes:
            for ind in O.customers(nd):
                if ind.priority_class != self.prio.get(ind.customer_class):
                    rep("priority-corresponds-to-class", {"customer": ind.id_number, "class": ind.customer_class,
                                                          "priority": ind.priority_class, "expected": self.prio.get(ind.customer_class)})

    def first_class(self, ind):
        c = self.created_class.get(ind.id_number)
        if c is None:
            # class at creation = class recorded by the first record's original class, else current (never changed yet)
            c = ind.data_records[0].original_customer_class if ind.data_records else ind.customer_class
            self.created_class[ind.id_number] = c
        return c

    def route(self, Q, e, rep):
        _, t, nid, ind, cname, dest, snap, route_before, kind = e
        r = self.cls[cname]["routing"]
        self.activity["decisions"] += 1
        n = len(self.spec["nodes"])
        if kind == "jockey":
            allowed = {-1: 1.0}
            if r["kind"] == "network" and r["routers"][nid - 1].get("jockey"):
                j = r["routers"][nid - 1]["jockey"]
                allowed = {d: p for d, p in zip(j["dests"], j["probs"])}
            if not (allowed.get(dest, 0) > 0):
                rep("jockeying-destination-allowed", {"node": nid, "class": cname, "went": dest, "allowed": allowed})
            return
        if r["kind"] == "matrix":
            row = r["rows"][nid - 1]
            probs = {j + 1: row[j] for j in range(n)}
            probs[-1] = 1.0 - sum(row)
            self.check_prob(rep, nid, cname, dest, probs)
        elif r["kind"] == "network":
            x = r["routers"][nid - 1]
            if kind == "reroute" and x.get("reroute_to") is not None:
                if dest != x["reroute_to"]:
                    rep("custom-rerouting-destination", {"node": nid, "went": dest, "expected": x["reroute_to"]})
                return
            if x["r"] == "direct":
                if dest != x["to"]:
                    rep("direct-router-deterministic", {"node": nid, "went": dest, "expected": x["to"]})
            elif x["r"] == "leave":
                if dest != -1:
                    rep("leave-router-deterministic", {"node": nid, "went": dest})
            elif x["r"] == "prob":
                probs = {d: p for d, p in zip(x["dests"], x["probs"])}
                probs[-1] = probs.get(-1, 0.0) + 1.0 - sum(x["probs"])
                self.check_prob(rep, nid, cname, dest, probs)
            elif x["r"] in ("jsq", "lb"):
                self.check_shortest(rep, nid, x["r"], x["dests"], x.get("tie", "random"), dest, snap, how=kind)
            elif x["r"] == "cycle":
                kpos = self.cycle_pos[(cname, nid)]
                self.cycle_pos[(cname, nid)] += 1
                self.activity["cycle_steps"] += 1
                exp = x["cycle"][kpos % len(x["cycle"])]
                if dest != exp:
                    rep("cycle-router-deterministic", {"node": nid, "class": cname, "decision": kpos, "went": dest, "expected": exp, "cycle": x["cycle"]})
        elif r["kind"] == "process":
            fc = self.first_class(ind)
            fr = self.cls[fc]["routing"]
            k = self.steps[ind.id_number]
            self.steps[ind.id_number] += 1
            self.activity["process_steps"] += 1
            if fr["kind"] == "process":
                route = fr["routes"][ind.id_number % len(fr["routes"])]
                exp = route[k] if k < len(route) else -1
                if dest != exp:
                    rep("process-route-followed-in-order", {"customer": ind.id_number, "step": k, "went": dest, "expected": exp, "route": route})
            exp2 = route_before[0] if route_before else -1
            if dest != exp2 or list(getattr(ind, "route", [])) != list(route_before[1:] if route_before else []):
                rep("process-route-consumed-one-step", {"customer": ind.id_number, "went": dest, "route_before": route_before,
                                                        "route_after": list(getattr(ind, "route", []))})
        elif r["kind"] == "flexible":
            fc = self.first_class(ind)
            fr = self.cls[fc]["routing"]
            if ind.id_number not in self.flex and fr["kind"] == "flexible":
                self.flex[ind.id_number] = [list(s) for s in fr["routes"][ind.id_number % len(fr["routes"])]]
            model = self.flex.get(ind.id_number)
            if model is not None:
                if [list(s) for s in (route_before or [])] != model:
                    rep("flexible-route-state", {"customer": ind.id_number, "route_before": route_before, "model": model})
                if not model:
                    if dest != -1:
                        rep("flexible-route-then-leave", {"customer": ind.id_number, "went": dest})
                else:
                    sub = model[0]
                    if dest not in sub:
                        rep("flexible-route-respects-set-order", {"customer": ind.id_number, "went": dest, "set": sub})
                    else:
                        if r["choice"] in ("jsq", "lb"):
                            self.check_shortest(rep, nid, r["choice"], sub, "random", dest, snap)
                        if len(sub) > 1:
                            self.activity["multi_choice_decisions"] += 1
                        if r["rule"] == "any":
                            model.pop(0)
                        else:
                            sub.remove(dest)
                            if not sub:
                                model.pop(0)

    def check_prob(self, rep, nid, cname, dest, probs):
        pos = [d for d, p in probs.items() if p > 0]
        if len(pos) >= 2:
            self.activity["multi_choice_decisions"] += 1
        if any(p == 0 for d, p in probs.items()):
            self.activity["zero_prob_alternative"] += 1
        if not (probs.get(dest, 0) > 0):
            rep("transition-of-probability-zero", {"node": nid, "class": cname, "went": dest, "probs": {str(k): v for k, v in probs.items()}})

    def check_shortest(self, rep, nid, kind, dests, tie, dest, snap, how=None):
        if kind == "jsq":
            size = {d: snap[d][0] - snap[d][1] for d in dests}
        else:
            size = {d: snap[d][0] for d in dests}
        m = min(size.values())
        mins = [d for d in dests if size[d] == m]
        if how == "reroute":
            self.activity["reroute_balanced"] = self.activity.get("reroute_balanced", 0) + 1
            for d in mins:
                nd = self.spec["nodes"][d - 1]
                if len(mins) < len(dests) and nd.get("cap", "inf") != "inf" and nd["servers"]["kind"] == "int" and snap[d][0] >= nd["servers"]["c"] + nd["cap"]:
                    self.activity["reroute_shortest_is_full"] = self.activity.get("reroute_shortest_is_full", 0) + 1
                    break
        if len(dests) >= 2:
            self.activity["multi_choice_decisions"] += 1
        if len(set(size.values())) > 1:
            self.activity["jsq_lb_unequal"] += 1
        if dest not in mins:
            rep(("join-shortest-queue-minimal-waiting-line" if kind == "jsq" else "load-balancing-minimal-population"),
                {"node": nid, "went": dest, "sizes": {str(k): v for k, v in size.items()}})
        elif tie == "order" and dest != mins[0]:
            rep("tie-break-order-picks-first-minimiser", {"node": nid, "went": dest, "minimisers": mins})
