"""C03 -- journey continuity: a customer's records chain node to node without gaps."""
from math import isnan

from .. import observe as O


def _nan(x):
    try:
        return isnan(x)
    except Exception:
        return False


def moving(r):
    if r.record_type in ("service", "renege"):
        return True
    if r.record_type == "interrupted service":
        return not _nan(r.destination)
    return False


class Journey(O.Monitor):
    name = "journey"
    P = "C03"

    def start(self, Q):
        self.visits = {}      # id_number -> list of (node, enter time)
        self.sig = {}         # id_number -> signature of the current visit
        self.exit_len = 0
        self.at_exit = {}     # id_number -> time seen at exit
        self.objs = {}
        self.activity = {}

    def after(self, Q, node, etype, nxt):
        t = Q.current_time
        for nd in Q.transitive_nodes:
            for ind in O.customers(nd):
                mov = [r for r in ind.data_records if moving(r)]
                nmov = len(mov)
                s = (nd.id_number, nmov)
                old = self.sig.get(ind.id_number)
                if old != s:
                    self.sig[ind.id_number] = s
                    if old is not None and old[1] is not None and nmov - old[1] > 1:
                        # several hops within one event (a pre-emptive reroute chain): the intermediate stops are not observable
                        # after the event; they are taken from the records, the final stop is the observed one
                        for r in mov[old[1]:nmov - 1]:
                            self.visits.setdefault(ind.id_number, []).append((r.destination, t))
                    self.visits.setdefault(ind.id_number, []).append((nd.id_number, t))
                    self.objs[ind.id_number] = ind
        ex = Q.nodes[-1].all_individuals
        for ind in ex[self.exit_len:]:
            old = self.sig.get(ind.id_number)
            mov = [r for r in ind.data_records if moving(r)]
            if old is not None and old[1] is not None and len(mov) - old[1] > 1:
                # reached the exit through several hops within this one event (re-routed on, pre-empted there and re-routed out): the
                # intermediate stops are taken from the records
                for r in mov[old[1]:len(mov) - 1]:
                    self.visits.setdefault(ind.id_number, []).append((r.destination, t))
            self.at_exit[ind.id_number] = t
            self.objs[ind.id_number] = ind
            self.sig[ind.id_number] = (-1, None)
        self.exit_len = len(ex)

    def after_call(self, Q, k, st, completed):
        self.audit(Q, "return")

    def finish(self, Q, res):
        if not res.calls_completed:
            self.audit(Q, "audit")

    def audit(self, Q, site):
        rep = lambda clause, d: Q.report(self.P, "C03." + clause, site, d)
        n = len(Q.transitive_nodes)
        where = {}
        for nd in Q.transitive_nodes:
            for ind in O.customers(nd):
                where[ind.id_number] = nd.id_number
        for ind in Q.nodes[-1].all_individuals:
            where[ind.id_number] = -1
        multi = special = 0
        for cid, ind in self.objs.items():
            R = ind.data_records
            vis = self.visits.get(cid, [])
            loc = where.get(cid)
            if len(R) >= 2:
                multi += 1
            if any(r.record_type in ("interrupted service", "renege") or (r.record_type == "service" and r.time_blocked > 0) for r in R):
                special += 1
            if not R:
                if loc == -1 or len(vis) != 1:
                    rep("no-record-means-first-visit-in-progress", {"customer": cid, "location": loc, "visits": vis})
                continue
            if R[0].record_type in ("baulk", "rejection"):
                if len(R) != 1 or loc != -1 or vis:
                    rep("baulk-rejection-terminal-and-only-record", {"customer": cid, "records": [r.record_type for r in R], "location": loc})
                if not (1 <= R[0].node <= n):
                    rep("baulk-rejection-node", {"customer": cid, "node": R[0].node})
                continue
            if any(r.record_type in ("baulk", "rejection") for r in R):
                rep("baulk-rejection-terminal-and-only-record", {"customer": cid, "records": [r.record_type for r in R]})
            # first record is at the arrival node and date
            if not vis or R[0].node != vis[0][0] or R[0].arrival_date != vis[0][1]:
                rep("first-record-at-arrival-node-and-date", {"customer": cid, "record_node": R[0].node, "record_arrival": O._num(R[0].arrival_date),
                                                              "observed": vis[:1]})
            # chain
            for a, b in zip(R, R[1:]):
                if moving(a):
                    if b.node != a.destination or b.arrival_date != a.exit_date:
                        rep("next-record-at-destination-and-instant", {"customer": cid, "previous": [a.record_type, a.node, repr(a.destination), O._num(a.exit_date)],
                                                                       "next": [b.record_type, b.node, O._num(b.arrival_date)]})
                else:
                    if b.node != a.node or b.arrival_date != a.arrival_date:
                        rep("interrupted-visit-continues-at-same-node", {"customer": cid, "previous": [a.node, O._num(a.arrival_date)],
                                                                         "next": [b.node, O._num(b.arrival_date)]})
            # visits: pattern interrupted* (service|renege|rerouted)?  and one service record per completed visit
            expected_nodes = [R[0].node]
            for r in R:
                if moving(r) and r.destination != -1:
                    expected_nodes.append(r.destination)
            last = R[-1]
            finished = moving(last) and last.destination == -1
            obs_nodes = [v[0] for v in vis]
            if obs_nodes != expected_nodes:
                rep("records-describe-the-observed-journey", {"customer": cid, "observed_nodes": obs_nodes, "record_nodes": expected_nodes})
            # location now
            if moving(last):
                should = last.destination
            else:
                should = last.node
            if loc != should:
                rep("location-matches-last-record", {"customer": cid, "location": loc, "last_record": [last.record_type, last.node, repr(last.destination)]})
            if (loc == -1) != finished:
                rep("at-exit-iff-last-record-leaves", {"customer": cid, "location": loc, "last_record": [last.record_type, repr(last.destination)]})
            # observed enter times equal record arrival dates per visit
            k = 0
            for i, r in enumerate(R):
                if i == 0 or moving(R[i - 1]):
                    if k < len(vis) and (vis[k][0] != r.node or vis[k][1] != r.arrival_date):
                        rep("visit-arrival-date-is-entry-instant", {"customer": cid, "visit": k, "observed": [vis[k][0], O._num(vis[k][1])],
                                                                    "record": [r.node, O._num(r.arrival_date)]})
                    k += 1
        self.activity["multi_record_customers"] = multi
        self.activity["special_hop_customers"] = special
