"""C01 -- customer conservation."""
from ..sysprop import system_subcheck, fuzz_subcheck
from ..monitors.conservation import Conservation
from .. import strategies as S
from . import common

ID = "C01"
RULE = ("NetSpecs drawn by Hypothesis from the full feature lattice (all node kinds incl. PS, every routing object, "
        "blocking, pre-emption incl. reroute, reneging/jockeying, baulking, batching incl. size 0, class changes, "
        "schedules, slotted; grid and continuous time profiles; max_time with 1-3 resumptions and max_customers plans). "
        "The conservation monitor runs on the object graph after every event.  A case is non-trivial when >= 10 customers "
        "were created, >= 1 node-to-node transfer and >= 1 exit happened, and at least one of {blocked record, "
        "interruption, renege, batch arrival event} occurred; distinct = distinct SHA-1 of the canonical spec JSON.")
ASSUMPTIONS = ["ground truth = membership of customer objects in Node.individuals lists and ExitNode.all_individuals",
               "sizes bounded: <=4 nodes, <=3 classes, <=3 servers, event budget per case"]
WALL = {"quick": 150, "thorough": 540}


def nontrivial(a, spec, res):
    return (a.get("created", 0) >= 10 and a.get("transfers", 0) >= 1 and a.get("at_exit", 0) >= 1 and
            (a.get("blocked_records", 0) + a.get("rec_interrupted_service", 0) + a.get("rec_renege", 0) > 0
             or any(c.get("batch") and any(c["batch"]) for c in spec["classes"])))


def classes(a, spec, res):
    out = []
    for k, lab in (("blocked_records", "blocking"), ("rec_interrupted_service", "interruption"), ("rec_renege", "renege"),
                   ("rec_baulk", "baulk"), ("rec_rejection", "rejection"), ("ev_class_change", "class_change_waiting"),
                   ("ev_shift_change", "shift_change"), ("ev_slotted_service", "slot")):
        if a.get(k):
            out.append(lab)
    return out


def subchecks(tier):
    prof = common.full_profile("C01", max_nodes=4)
    base = system_subcheck("lattice", prof, lambda spec: [Conservation()], nontrivial, classes=classes,
                            n={"quick": 7200, "thorough": 40000},
                            rule="full lattice, conservation monitor after every event")
    region = system_subcheck("sched_blocked", common.region_profile("C01"), lambda spec: [Conservation()],
                             lambda a, spec, res: a.get("rec_interrupted_service", 0) >= 1 and a.get("blocked_records", 0) >= 1, classes=classes,
                             n={"quick": 3600, "thorough": 30000}, rule="pre-emptive schedules x blocking region (heavy load, grid times); same monitor")
    return [base, region, fuzz_subcheck(base, tier)]
