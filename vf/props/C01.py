"""C01 -- customer conservation."""
from ..sysprop import system_subcheck, fuzz_subcheck
from ..monitors.conservation import Conservation
from .. import strategies as S
from . import common

ID = "C01"
RULE = ("NetSpecs drawn by Hypothesis from the full feature lattice (all node kinds incl. PS, every routing object, "
        "blocking, pre-emption incl. reroute, reneging/jockeying, baulking, batching incl. size 0, class changes, "
        "schedules, slotted; grid and continuous time profiles; max_time with 1-3 resumptions and max_customers plans). "
        "The conservation monitor runs on the object graph after every event.  A case is non-trivial when >= 10 customers "
        "were created, >= 1 node-to-node transfer and >= 1 exit happened, and at least one of {blocked record, "
        "interruption, renege, batch arrival event} occurred; distinct = distinct SHA-1 of the canonical spec JSON.")
ASSUMPTIONS = ["ground truth = membership of customer objects in Node.individuals lists and ExitNode.all_individuals",
               "sizes bounded: <=4 nodes, <=3 classes, <=3 servers, event budget per case"]
TECHNIQUE = 'property-based testing: Hypothesis-generated networks (full feature lattice, region and reused-network profiles) with a conservation monitor on the object graph after every event; coverage-guided fuzzing (atheris) over the same generator'
WALL = {"quick": 150, "thorough": 540}


def nontrivial(a, spec, res):
    return (a.get("created", 0) >= 10 and a.get("transfers", 0) >= 1 and a.get("at_exit", 0) >= 1 and
            (a.get("blocked_records", 0) + a.get("rec_interrupted_service", 0) + a.get("rec_renege", 0) > 0
             or any(c.get("batch") and any(c["batch"]) for c in spec["classes"])))


def classes(a, spec, res):
    out = []
    for k, lab in (("blocked_records", "blocking"), ("rec_interrupted_service", "interruption"), ("rec_renege", "renege"),
                   ("rec_baulk", "baulk"), ("rec_rejection", "rejection"), ("ev_class_change", "class_change_waiting"),
                   ("ev_shift_change", "shift_change"), ("ev_slotted_service", "slot")):
        if a.get(k):
            out.append(lab)
    return out


def subchecks(tier):
    prof = common.full_profile("C01", max_nodes=4)
    base = system_subcheck("lattice", prof, lambda spec: [Conservation()], nontrivial, classes=classes,
                            n={"quick": 7200, "thorough": 40000},
                            rule="full lattice, conservation monitor after every event")
    region = system_subcheck("sched_blocked", common.region_profile("C01"), lambda spec: [Conservation()],
                             lambda a, spec, res: a.get("rec_interrupted_service", 0) >= 1 and a.get("blocked_records", 0) >= 1, classes=classes,
                             n={"quick": 3600, "thorough": 30000}, rule="pre-emptive schedules x blocking region (heavy load, grid times); same monitor")
    from .. import strategies as S
    wj = {"reneging": 1.0, "jockeying": 1.0, "priorities": 1.0, "prio_preempt": 1.0, "prio_reroute": 1.0, "routing_objects": 1.0, "capacity": 0.5, "batching": 0.4,
          "self_loops": 0.5, "discipline": 0.2, "zero_service": 0.2, "cc_waiting": 0.2}
    jr = S.Profile(list(wj), weights=wj, required=("reneging", "jockeying", "priorities", "prio_preempt", "prio_reroute", "routing_objects"), numeric="grid", max_nodes=3,
                   max_classes=3, plans=("max_time",), horizon=(8.0, 20.0), budget=600, caps=(0, 1, 2), load="heavy", max_c=2)
    jockey = system_subcheck("jockey_reroute", jr, lambda spec: [Conservation()], lambda a, spec, res: a.get("rec_renege", 0) >= 1 and a.get("rec_interrupted_service", 0) >= 1,
                             classes=classes, n={"quick": 3600, "thorough": 20000},
                             rule="reneging customers that jockey to nodes with 're-route' pre-emption: one event can move a customer out of a node, pre-empt somebody at "
                                  "its new node and send that one back; same conservation monitor")
    long_run = system_subcheck("long_run", common.full_profile("C01", plans=("max_time",), horizon=(300.0, 600.0), budget=6000, resumptions=(1, 2), load="heavy"),
                               lambda spec: [Conservation()], lambda a, spec, res: a.get("events", 0) >= 2500, classes=classes, n={"quick": 64, "thorough": 600},
                               rule="the lattice run over thousands of events (customer ids, server ids and counters in the thousands); same monitor")
    return [base, region, jockey, long_run, reused_subcheck(), fuzz_subcheck(base, tier)]


def reused_subcheck():
    """Conservation in a *second* simulation built on the same Network object (users loop `Q = ciw.Simulation(N)` over trials)."""
    import ciw
    from .. import observe as O
    from .. import build as B
    from ..runner import SubCheck
    from ..sysprop import Activity
    prof = common.full_profile("C01", max_nodes=3, plans=("max_time",), resumptions=(1, 1), horizon=(4.0, 10.0), budget=400)

    def execute(spec):
        ciw.seed(spec["seed"])
        b = B.build(spec)
        first = O.MonSimulation(b.network, monitors=(), budget=400, obs=False, ps_nodes=b.ps_nodes, **_simkw(spec, B))
        try:
            first.simulate_until_max_time(spec["plan"]["T"][0])
        except Exception:
            pass
        act = Activity()
        mon = Conservation()
        second = O.MonSimulation(b.network, monitors=[act, mon], budget=400, obs=False, ps_nodes=b.ps_nodes, **_simkw(spec, B))
        second.plan_steps = [("max_time", spec["plan"]["T"][0])]
        second.cur_step = second.plan_steps[0]
        second.call_index = 0
        aborted = None
        try:
            second.simulate_until_max_time(spec["plan"]["T"][0])
        except O.Budget:
            pass
        except Exception as e:
            if O.harness_fault(e):
                raise
            aborted = O.exception_bucket(e)
        res = O.CaseResult()
        res.aborted = aborted
        act.finish(second, res)
        a = dict(act.a)
        return {"violations": list(second.violations), "activity": {k: v for k, v in a.items() if v}, "aborted": aborted, "budget_hit": False,
                "events": second.n_events, "nontrivial": a.get("created", 0) >= 5 and a.get("transfers", 0) >= 1, "classes": ["second_simulation"],
                "score": second.n_events}
    return SubCheck("reused_network", execute, strategy=S.netspec(prof), n={"quick": 2400, "thorough": 20000}, kind="system",
                    rule="conservation monitor on the second Simulation built from one Network object (after a first, unmonitored run)")


def _simkw(spec, B):
    kw = {}
    if spec.get("tracker"):
        kw["tracker"] = B.make_tracker(spec["tracker"])
    return kw
