"""C12 -- server schedules and slotted services follow the declared cyclic timetable."""
import itertools

from ..sysprop import system_subcheck
from ..monitors.timetable import ScheduleMonitor, Timetable
from .. import strategies as S
from ..runner import SubCheck
from . import common

ID = "C12"
RULE = ("(a) system: nodes with ciw.Schedule (1-4 shifts, zero-server shifts, offsets, pre-emption False/resume/restart/resample/reroute) "
        "and ciw.Slotted (1-4 slots, sizes 0-3, capacitated or not, pre-emption options), unrestricted queues, several classes, "
        "priorities, reneging, batches.  Reference: closed-form timetable offset + boundary[i] + k*cycle.  Monitor after every event: "
        "on-duty servers == timetable (either neighbour exactly at a boundary); no service start while zero servers are scheduled; "
        "pre-emptive: everyone in service at a shift end gets an interrupted record with exit == boundary and no fresh customer is "
        "attached while an interrupted one waits; non-pre-emptive: no interruption, node.overtime == the monitor's own (server death - "
        "scheduled shift end); slotted: starts only at slot instants, starts per slot <= size (== min(size, waiting) uncapacitated, "
        "<= size - in service capacitated, in service after <= size with pre-emption).  (b) unit, exhaustive: Schedule / Slotted "
        "generators vs the closed form for all timetables with <= 3 shifts on an 8-point grid, servers 0-2, 3 offsets, 3 cycles.  "
        "Non-trivial (a): >= 2 shift changes with customers present or >= 1 slot with more waiting than its size, plus one of "
        "{zero shift with a queue, interruption, overtime server, slot starts}; distinct by digest.")
ASSUMPTIONS = ["either side of a boundary is accepted exactly at a coincident instant (tie order between nodes is random by design, S5)"]
TECHNIQUE = 'property-based testing against a closed-form timetable reference; per-visit interruption bookkeeping audit; exhaustive enumeration of timetable generators'
WALL = {"quick": 150, "thorough": 540}

ALLOWED = ["schedule", "sched_preempt", "sched_reroute", "slotted", "slot_capacitated", "slot_preempt", "priorities", "reneging", "batching",
           "discipline", "routing_objects", "self_loops", "inf", "cc_after", "server_priority", "zero_service"]


def nontrivial(a, spec, res):
    return ((a.get("shift_changes_with_customers", 0) >= 2 or a.get("slots_with_excess_demand", 0) >= 1) and
            (a.get("zero_shift_with_queue", 0) + a.get("interruptions", 0) + a.get("overtime_servers", 0) + a.get("slot_starts", 0)) >= 1)


def classes(a, spec, res):
    return [k for k in ("zero_shift_with_queue", "interruptions", "overtime_servers", "slots_with_excess_demand", "restarts_before_fresh",
                        "cycles_completed", "slot_interruptions", "rec_renege") if a.get(k)]


GRID8 = [0.5, 1.0, 1.5, 2.0, 2.5, 3.5, 4.0, 5.5]


def gen_cases(tier):
    out = []
    for k in (1, 2, 3):
        for bs in itertools.combinations_with_replacement(GRID8, k):      # equal consecutive boundaries = shifts of length zero
            for vals in itertools.product((0, 1, 2), repeat=k):
                for off in (0.0, 0.5, 1.25):
                    out.append({"b": list(bs), "v": list(vals), "offset": off})
    return out


def gen_execute(case):
    import ciw
    b, v, off = case["b"], case["v"], case["offset"]
    tt = Timetable(b, v, off)
    n = len(b)
    viol = []
    sch = ciw.Schedule(numbers_of_servers=list(v), shift_end_dates=list(b), offset=off)
    sch.initialise()
    if sch.c != 0 or sch.next_shift_change_date != off:
        viol.append({"property": ID, "clause": "C12.schedule-starts-with-zero-servers-until-offset", "site": "unit", "details": case})
    seq = []
    for k in range(3 * n + 1):
        sch.get_next_shift()
        seq.append((sch.c, sch.next_shift_change_date))
    exp = [(tt.value(k), tt.date(k)) for k in range(3 * n + 1)]
    if seq != exp:
        viol.append({"property": ID, "clause": "C12.schedule-generator-follows-closed-form", "site": "unit",
                     "details": {"case": case, "got": seq[:7], "expected": exp[:7]}})
    sl = ciw.Slotted(slots=list(b), slot_sizes=list(v), offset=off)
    sl.initialise()
    seq = []
    for k in range(3 * n + 1):
        seq.append((sl.next_slot_date, sl.slot_size))
        sl.get_next_slot()
    exp = [(tt.date(k), tt.value(k)) for k in range(3 * n + 1)]
    if seq != exp:
        viol.append({"property": ID, "clause": "C12.slot-generator-follows-closed-form", "site": "unit",
                     "details": {"case": case, "got": seq[:7], "expected": exp[:7]}})
    return {"violations": viol, "nontrivial": True, "classes": ["shifts_%d" % n, "offset" if off else "no_offset"]}


def subchecks(tier):
    w = {"schedule": 0.75, "sched_preempt": 0.55, "sched_reroute": 0.25, "slotted": 0.45, "slot_capacitated": 0.5, "slot_preempt": 0.5,
         "priorities": 0.3, "reneging": 0.2, "batching": 0.3, "discipline": 0.2, "routing_objects": 0.2, "self_loops": 0.3, "inf": 0.1,
         "cc_after": 0.1, "server_priority": 0.1, "zero_service": 0.2}
    prof = S.Profile(ALLOWED, weights=w, numeric="mixed", max_nodes=3, max_classes=2, plans=("max_time",), require_any=("schedule", "slotted"),
                     horizon=(8.0, 24.0), budget=800, load="heavy", resumptions=(1, 2),
                     excluded=())
    # capacitated, pre-emptive slots with services spanning several slots: interrupted customers still parked when the next slot is over capacity
    ws = {"slotted": 1.0, "slot_capacitated": 1.0, "slot_preempt": 1.0, "priorities": 0.4, "batching": 0.5, "self_loops": 0.3, "reneging": 0.15,
          "routing_objects": 0.2, "discipline": 0.2, "cc_after": 0.1}
    sl = S.Profile(list(ws), weights=ws, required=("slotted", "slot_capacitated", "slot_preempt"), numeric="grid", max_nodes=2, max_classes=2,
                   plans=("max_time",), horizon=(8.0, 20.0), budget=600, load="heavy", resumptions=(1, 1), long_service=0.6)
    return [
        system_subcheck("slot_squeeze", sl, lambda spec: [ScheduleMonitor(spec)],
                        lambda a, spec, res: a.get("slot_interruptions", 0) >= 2, classes=classes, obs=True, log=True,
                        n={"quick": 3600, "thorough": 20000},
                        rule="capacitated pre-emptive slots, heavy load, long services (several slots); non-trivial = >= 2 slot interruptions"),
        system_subcheck("preempt_combo", common.combo_profile("C12", more_weights={"prio_reroute": 0.0, "sched_reroute": 0.0, "cc_waiting": 0.3}),
                        lambda spec: [ScheduleMonitor(spec)],
                        lambda a, spec, res: a.get("episodes_at_doubly_preemptive_nodes", 0) >= 1, obs=True, log=True,
                        classes=lambda a, spec, res: classes(a, spec, res) + [k for k in ("episodes_at_doubly_preemptive_nodes", "visits_interrupted_by_both_mechanisms") if a.get(k)],
                        n={"quick": 3600, "thorough": 20000},
                        rule="nodes with a pre-emptive schedule and pre-emptive priorities whose options may differ: a visit interrupted only by shift ends follows the "
                             "schedule's option, one interrupted only by priorities follows the priority option (visits interrupted by both are skipped)"),
        system_subcheck("system", prof, lambda spec: [ScheduleMonitor(spec)], nontrivial, classes=classes, obs=True, log=True,
                        n={"quick": 7200, "thorough": 40000}, rule="scheduled / slotted nodes vs closed-form timetable"),
        system_subcheck("sched_blocked", common.region_profile("C12", excluded=(), more_weights={"sched_reroute": 0.35}),
                        lambda spec: [ScheduleMonitor(spec)], lambda a, spec, res: a.get("interruptions", 0) >= 1 and a.get("blocked_records", 0) >= 1,
                        classes=classes, obs=True, log=True, n={"quick": 4800, "thorough": 30000},
                        rule="pre-emptive schedules x blocking region (heavy load, grid times); same timetable monitor"),
        SubCheck("generators", gen_execute, cases=gen_cases, kind="unit", exhaustive=True, is_spec=False,
                 rule="all timetables with <= 3 boundaries from an 8-point grid x values 0-2 x 3 offsets; Schedule and Slotted generators over 3 cycles"),
    ]
