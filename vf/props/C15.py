"""C15 -- reproducibility: same seed and parameters give bit-identical results."""
import hashlib
import math

from hypothesis import strategies as st
from hypothesis.stateful import RuleBasedStateMachine, rule, initialize

from .. import build as B
from .. import observe as O
from .. import strategies as S
from ..runner import SubCheck
from . import common

ID = "C15"
RULE = ("Stateful generation (Hypothesis RuleBasedStateMachine): a NetSpec rich in stateful parts (Sequential distributions for arrival / "
        "service / batch / reneging / class-change times, Cycle routers, schedules, slotted, trackers) plus a generated history of "
        "operations (the spec may be in exact mode and may contain 16-17 digit constants): run_fresh(seed, T) builds a new network from the spec; "
        "run_at_other_precision(seed, T, k) runs the same model with exact=k in between (compared only with its own repeats); run_reused(seed, T) starts a new Simulation on one shared "
        "Network object; run_noise(seed) runs an unrelated simulation in between; interleave(seed, T) steps two simulations alternately, "
        "once on two separate networks and once on the shared one.  Oracle: every run with the same (seed, T) has the same digest "
        "(records with NaN normalised, final clock, tracker history, exit order) whether fresh or reused and whatever ran before; the "
        "interleaved pair gives the same digests on a shared network as on separate ones.  Non-trivial: a history in which one key was "
        "executed >= 2 times with at least one reuse after a different run; distinct by digest of (spec, history).")
ASSUMPTIONS = ["a tracker / deadlock detector object is created per Simulation, as the documentation does"]
TECHNIQUE = 'stateful property-based testing: Hypothesis rule-based machine generating histories of fresh / reused / bystander / interleaved / other-precision runs (digests compared), plus a differential check of the same run in fresh interpreters with and without a prelude of other simulations'
WALL = {"quick": 150, "thorough": 540}

ALLOWED = ["schedule", "sched_preempt", "slotted", "capacity", "priorities", "reneging", "batching", "cc_after", "cc_waiting", "discipline",
           "routing_objects", "process_routing", "self_loops", "tracker", "inf", "baulking", "system_capacity", "prio_preempt", "exact"]
NOISE = {"classes": [{"arrival": [["exp", 2.0]], "name": "C0", "priority": 0, "routing": {"kind": "matrix", "rows": [[0.25]]}, "service": [["exp", 3.0]]}],
         "nodes": [{"cap": "inf", "servers": {"kind": "int", "c": 1}, "discipline": "SIRO"}], "plan": {"kind": "max_time", "T": [6.0]}, "event_budget": 400}
SEEDS = [1, 2, 3]
HORIZONS = [4.0, 7.5]


def _norm(x):
    if isinstance(x, float) and math.isnan(x):
        return "nan"
    return x


def digest(Q):
    inds = list(Q.nodes[-1].all_individuals)
    for nd in Q.transitive_nodes:
        inds.extend(O.customers(nd))
    inds.sort(key=lambda i: i.id_number)
    recs = [tuple(_norm(f) for f in r) for i in inds for r in i.data_records]
    doc = repr((recs, Q.current_time, Q.statetracker.history, [i.id_number for i in Q.nodes[-1].all_individuals]))
    return hashlib.sha1(doc.encode()).hexdigest()[:12], len(recs)


def _sim(built, spec, budget=1500):
    skw = {}
    if spec.get("tracker"):
        skw["tracker"] = B.make_tracker(spec["tracker"])
    if spec.get("exact"):
        skw["exact"] = spec["exact"]
    return O.MonSimulation(built.network, monitors=(), budget=budget, obs=False, ps_nodes=built.ps_nodes, **skw)


def _run(Q, T):
    try:
        Q.simulate_until_max_time(T)
    except O.Budget:
        return None
    return digest(Q)


def execute(case):
    import ciw
    spec, ops = case["spec"], case["ops"]
    shared = None
    seen = {}           # (seed, T) -> list of (how, digest, position)
    viol = []
    stats = {"fresh": 0, "reused": 0, "noise": 0, "interleave": 0, "bystander": 0, "precision": 0, "records": 0}

    def get_shared():
        nonlocal shared
        if shared is None:
            ciw.seed(12345)
            shared = B.build(spec)
        return shared
    try:
        for pos, op in enumerate(ops):
            kind = op[0]
            stats[kind] += 1
            if kind == "noise":
                ciw.seed(op[1])
                b = B.build(NOISE)
                _run(_sim(b, NOISE), 6.0)
            elif kind == "fresh":
                ciw.seed(op[1])
                b = B.build(spec)
                d = _run(_sim(b, spec), op[2])
                seen.setdefault((op[1], op[2]), []).append(("fresh", d, pos))
            elif kind == "precision":
                # the same model in exact mode at another precision: its own results are compared among themselves only, but it runs
                # in the same process in between the others (the decimal context and anything cached per value are process-wide)
                other = dict(spec, exact=op[3])
                ciw.seed(op[1])
                b = B.build(other)
                d = _run(_sim(b, other), op[2])
                seen.setdefault((op[1], op[2], op[3]), []).append(("fresh", d, pos))
            elif kind == "bystander":
                # build and construct, then construct (never run) an unrelated default-routed simulation, then run: no shared state
                ciw.seed(op[1])
                b = B.build(spec)
                Q = _sim(b, spec)
                nb = ciw.create_network(arrival_distributions=[ciw.dists.Deterministic(1.0)], service_distributions=[ciw.dists.Deterministic(1.0)],
                                        number_of_servers=[1])
                ciw.Simulation(nb)
                d = _run(Q, op[2])
                seen.setdefault((op[1], op[2]), []).append(("fresh", d, pos))
            elif kind == "reused":
                sh = get_shared()
                ciw.seed(op[1])
                d = _run(_sim(sh, spec), op[2])
                seen.setdefault((op[1], op[2]), []).append(("reused", d, pos))
            elif kind == "interleave":
                res = []
                for scenario in ("separate", "shared"):
                    ciw.seed(777)
                    if scenario == "separate":
                        b1, b2 = B.build(spec), B.build(spec)
                    else:
                        b1 = b2 = get_shared()
                    ciw.seed(op[1])
                    Q1, Q2 = _sim(b1, spec), _sim(b2, spec)
                    T = op[2]
                    ok = True
                    try:
                        for frac in (0.35, 0.7, 1.0):
                            Q1.simulate_until_max_time(T * frac)
                            Q2.simulate_until_max_time(T * frac)
                    except O.Budget:
                        ok = False
                    res.append((digest(Q1), digest(Q2)) if ok else None)
                if res[0] is not None and res[1] is not None and res[0] != res[1]:
                    viol.append({"property": ID, "clause": "C15.simulations-sharing-a-network-do-not-interact", "site": "interleave",
                                 "details": {"seed": op[1], "T": op[2], "separate": res[0], "shared": res[1]}})
    except Exception as e:
        if O.harness_fault(e):
            raise
        return {"violations": [], "aborted": O.exception_bucket(e), "nontrivial": False, "classes": ["aborted"]}
    nontrivial = False
    for key, runs in seen.items():
        ds = [r for r in runs if r[1] is not None]
        if len(ds) >= 2:
            stats["records"] = max(stats["records"], ds[0][1][1])
            if any(r[0] == "reused" and r[2] > 0 for r in ds):
                nontrivial = True
        ref = None
        for how, d, pos in ds:
            if ref is None:
                ref = (how, d, pos)
                continue
            if d != ref[1]:
                both = {how, ref[0]}
                clause = ("C15.reused-network-equals-fresh-network" if "reused" in both else "C15.same-seed-same-results-regardless-of-history")
                viol.append({"property": ID, "clause": clause, "site": "+".join(sorted(both)),
                             "details": {"key": list(key), "first": [ref[0], ref[1], ref[2]], "other": [how, d, pos]}})
                break
    return {"violations": viol, "nontrivial": nontrivial, "classes": [k for k, v in stats.items() if v and k != "records"],
            "activity": stats, "score": stats["records"], "events": 0}


def make_machine(body, prof=None):
    prof = prof or profile()

    class History(RuleBasedStateMachine):
        def __init__(self):
            super().__init__()
            self.case = None

        @initialize(spec=S.netspec(prof))
        def init(self, spec):
            self.case = {"spec": spec, "ops": []}

        @rule(seed=st.sampled_from(SEEDS), T=st.sampled_from(HORIZONS))
        def run_fresh(self, seed, T):
            self.case["ops"].append(["fresh", seed, T])

        @rule(seed=st.sampled_from(SEEDS), T=st.sampled_from(HORIZONS))
        def run_reused(self, seed, T):
            self.case["ops"].append(["reused", seed, T])

        @rule(seed=st.sampled_from(SEEDS), T=st.sampled_from(HORIZONS))
        def run_with_bystander(self, seed, T):
            self.case["ops"].append(["bystander", seed, T])

        @rule(seed=st.sampled_from(SEEDS), T=st.sampled_from(HORIZONS), k=st.sampled_from([10, 12, 30]))
        def run_at_other_precision(self, seed, T, k):
            if not any(nd.get("ps") for nd in self.case["spec"]["nodes"]):
                self.case["ops"].append(["precision", seed, T, k])

        @rule(seed=st.integers(0, 50))
        def run_noise(self, seed):
            self.case["ops"].append(["noise", seed])

        @rule(seed=st.sampled_from(SEEDS), T=st.sampled_from(HORIZONS))
        def interleave(self, seed, T):
            self.case["ops"].append(["interleave", seed, T])

        def teardown(self):
            if self.case is not None and self.case["ops"]:
                body(self.case)
    return History


def profile():
    w = {"schedule": 0.35, "sched_preempt": 0.3, "slotted": 0.2, "capacity": 0.3, "priorities": 0.3, "reneging": 0.5, "batching": 0.4,
         "cc_after": 0.2, "cc_waiting": 0.35, "discipline": 0.3, "routing_objects": 0.6, "process_routing": 0.2, "self_loops": 0.4,
         "tracker": 0.4, "inf": 0.1, "baulking": 0.15, "system_capacity": 0.1, "prio_preempt": 0.15, "exact": 0.3}
    return S.Profile(ALLOWED, weights=w, numeric="grid", max_nodes=3, max_classes=2, plans=("max_time",), horizon=(4.0, 8.0), budget=1500, long_digits=0.15,
                     excluded=common.EXCL["C15"])


# ---- process isolation: the same run in a fresh interpreter with and without other simulations before it ---------------------
@st.composite
def isolation_case(draw):
    prof = profile()
    prof.weights["exact"] = 0.6
    prof.long_digits = 0.3
    spec = draw(S.netspec(prof))
    prelude = draw(st.lists(st.one_of(
        st.tuples(st.just("precision"), st.sampled_from(SEEDS), st.sampled_from(HORIZONS), st.sampled_from([10, 11, 12, 30])),
        st.tuples(st.just("noise"), st.integers(0, 50)),
        st.tuples(st.just("fresh"), st.sampled_from(SEEDS), st.sampled_from(HORIZONS))), min_size=1, max_size=3))
    return {"spec": spec, "prelude": [list(x) for x in prelude], "target": [draw(st.sampled_from(SEEDS)), draw(st.sampled_from(HORIZONS))]}


def _child(job):
    import json
    import os
    import subprocess
    import sys
    import vf
    env = dict(os.environ, PYTHONHASHSEED="0")
    r = subprocess.run([sys.executable, "-m", "vf.c15child"], input=json.dumps(job), capture_output=True, text=True, cwd=vf.VERIF_DIR, env=env, timeout=300)
    if r.returncode != 0:
        raise O.HarnessError("c15child failed: " + r.stderr[-400:])
    return json.loads(r.stdout.strip().splitlines()[-1])


def isolation_execute(case):
    spec = case["spec"]
    if any(nd.get("ps") for nd in spec["nodes"]):
        case = dict(case, prelude=[op for op in case["prelude"] if op[0] != "precision"])
    alone = _child(dict(case, prelude=[]))
    after = _child(case)
    viol = []
    if alone != after:
        viol.append({"property": ID, "clause": "C15.same-results-whatever-ran-before-in-the-process", "site": "+".join(sorted(set(op[0] for op in case["prelude"]))),
                     "details": {"alone": alone, "after_prelude": after, "prelude": case["prelude"], "target": case["target"]}})
    n = (alone.get("digest") or [None, 0])[1] if alone.get("digest") else 0
    return {"violations": viol, "nontrivial": n >= 10 and bool(case["prelude"]), "classes": sorted(set("prelude_" + op[0] for op in case["prelude"]))
            + (["exact_target"] if spec.get("exact") else []), "score": n, "events": 0}


def subchecks(tier):
    sc = SubCheck("history", execute, strategy=None, n={"quick": 9600, "thorough": 40000}, kind="stateful", is_spec=False,
                  rule="generated histories of fresh / reused / noise / interleaved runs over one spec")
    sc.machine = make_machine
    sc.steps = 10
    # ties inside one node: batches (equal arrival dates) at capacitated pre-emptive slotted nodes and at nodes with timed class changes - any
    # choice among tied customers that depends on object identity (memory addresses) differs between two runs of one process
    wt = {"slotted": 0.7, "slot_capacitated": 1.0, "slot_preempt": 1.0, "batching": 1.0, "priorities": 0.5, "cc_waiting": 0.6, "prio_preempt": 0.3, "discipline": 0.3,
          "self_loops": 0.3, "reneging": 0.3, "schedule": 0.3, "sched_preempt": 0.5, "capacity": 0.2}
    tie_prof = S.Profile(list(wt), weights=wt, required=("batching",), numeric="grid", max_nodes=2, max_classes=3, plans=("max_time",), horizon=(4.0, 8.0),
                         budget=1500, load="heavy", long_service=0.4, excluded=common.EXCL["C15"])
    sc2 = SubCheck("history_ties", execute, strategy=None, n={"quick": 3200, "thorough": 16000}, kind="stateful", is_spec=False,
                   rule="the same histories over tie-rich models: batch arrivals (customers with equal arrival and class-change dates) at capacitated pre-emptive "
                        "slotted nodes, timed class changes, pre-emption")
    sc2.machine = lambda body: make_machine(body, tie_prof)
    sc2.steps = 8
    iso = SubCheck("process_isolation", isolation_execute, strategy=isolation_case(), n={"quick": 96, "thorough": 1600}, kind="differential", is_spec=False,
                   rule="the target run (seed, T) in a fresh interpreter vs the same run in a fresh interpreter after a prelude of other simulations "
                        "(the same model at another exact precision, an unrelated model, the same model at another seed): digests must be equal; "
                        "non-trivial = target wrote >= 10 records")
    return [sc, sc2, iso]
