"""C05 -- work conservation."""
from ..sysprop import system_subcheck
from ..monitors.servers import WorkConservation
from . import common

ID = "C05"
RULE = ("NetSpecs with finite-server, non-slotted, non-PS nodes, FIFO/LIFO/SIRO, any priorities, pre-emption, schedules, reneging, "
        "blocking, class changes.  Monitor: after no event does a node have both a waiting customer (present and not holding a live "
        "server -- schedule-interrupted customers and customers left with a deleted server count as waiting) and a free on-duty server. "
        "Audit: every positive waiting_time interval in the service records is covered by instants at which the monitor saw all "
        "on-duty servers occupied.  Non-trivial: >= 1 customer with positive wait later served and >= 1 restart path other than "
        "plain departure (unblocking, shift change, pre-emption, renege or class change); distinct by spec digest.")
ASSUMPTIONS = ["time advances only between events, so the after-event invariant is equivalent to 'starts at the instant a server frees'"]
TECHNIQUE = "property-based testing: generated networks; invariant 'no free on-duty server while a customer waits' after every event plus coverage audit of waiting intervals"
WALL = {"quick": 150, "thorough": 540}


def nontrivial(a, spec, res):
    return a.get("waited_then_served", 0) >= 1 and (a.get("blocked_records", 0) + a.get("ev_shift_change", 0) + a.get("rec_interrupted_service", 0)
                                                    + a.get("rec_renege", 0) + a.get("ev_class_change", 0)) >= 1


def classes(a, spec, res):
    return [k for k in ("blocked_records", "ev_shift_change", "rec_interrupted_service", "rec_renege", "ev_class_change") if a.get(k)]


def big_pools_profile():
    from .. import strategies as S
    w = {"schedule": 1.0, "sched_preempt": 0.5, "batching": 0.8, "priorities": 0.3, "prio_preempt": 0.2, "capacity": 0.2, "self_loops": 0.3, "discipline": 0.2,
         "server_priority": 0.2, "reneging": 0.1}
    return S.Profile(list(w), weights=w, required=("schedule",), numeric="grid", max_nodes=2, max_classes=2, plans=("max_time",), horizon=(8.0, 20.0),
                     budget=900, load="heavy", max_c=9, long_service=0.5, excluded=common.EXCL["C05"])


def subchecks(tier):
    prof = common.full_profile("C05", horizon=(6.0, 18.0), load="heavy")
    # slotted nodes are outside the property but may sit upstream of the nodes it speaks about
    prof.weights.update({"ps": 0.0, "inf": 0.1, "slotted": 0.25, "slot_capacitated": 0.7, "slot_preempt": 0.7, "schedule": 0.45, "discipline": 0.5})
    return [system_subcheck("lattice", prof, lambda spec: [WorkConservation()], nontrivial, classes=classes,
                            n={"quick": 9600, "thorough": 50000}, rule="finite-server lattice; idle-server-vs-waiting monitor + coverage audit"),
            system_subcheck("big_pools", big_pools_profile(), lambda spec: [WorkConservation()],
                            lambda a, spec, res: a.get("ev_shift_change", 0) >= 2 and a.get("waited_records", 0) >= 1, classes=classes,
                            n={"quick": 3000, "thorough": 20000},
                            rule="server pools of up to 9 (fixed and scheduled, pre-emptive and not), batches, heavy load: many servers changing hands at one shift end; same monitor"),
            system_subcheck("slot_feed", common.slot_feed_profile("C05"), lambda spec: [WorkConservation()],
                            lambda a, spec, res: a.get("rec_interrupted_service", 0) >= 1 and a.get("ev_shift_change", 0) >= 2, classes=classes,
                            n={"quick": 3600, "thorough": 20000},
                            rule="capacitated pre-emptive slotted node feeding a scheduled node (customers arrive after an interruption and resumption); same monitor"),
            system_subcheck("sched_blocked", common.region_profile("C05"), lambda spec: [WorkConservation()],
                            lambda a, spec, res: a.get("rec_interrupted_service", 0) >= 1 and a.get("blocked_records", 0) >= 1, classes=classes,
                            n={"quick": 4800, "thorough": 30000}, rule="pre-emptive schedules x blocking region (heavy load, grid times); same monitor")]
