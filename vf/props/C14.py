"""C14 -- runs end normally and stop exactly at the requested horizon or count."""
from ..sysprop import system_subcheck, fuzz_subcheck
from ..monitors.conservation import Conservation
from ..monitors.horizon import Horizon
from .. import strategies as S
from .. import build as B
from . import common

ID = "C14"
RULE = ("NetSpecs from everything create_network accepts (full lattice + exact arithmetic + all seven trackers + the deadlock "
        "detector), plans simulate_until_max_time (1-3 successive horizons, incl. horizons below the first event) and "
        "simulate_until_max_customers (n in 1..25, all four methods).  Oracle: no exception escapes Simulation() or simulate_*; "
        "horizon/count clauses checked by a monitor using counts recomputed from the exit list and records.  A case is "
        "non-trivial when it combines >= 2 optional features and executes >= 30 events; distinct by spec digest.")
ASSUMPTIONS = ["a valid input is one built by the generator from documented parameter forms (DESIGN 2.1)",
               "event budget per case; a run that hits it is inconclusive for the return-time clauses"]
TECHNIQUE = 'property-based testing over everything create_network accepts (exception = violation): horizon / count monitor with counts recomputed from ground truth, events owed to customers derived from the customers themselves, mixed call plans (both stopping methods on one Simulation), exact-mode decimal horizons; coverage-guided fuzzing (atheris)'
WALL = {"quick": 150, "thorough": 540}


def nontrivial(a, spec, res):
    return len(B.features(spec) - {"multi_node", "multi_class"}) >= 2 and a.get("events", 0) >= 30


def classes(a, spec, res):
    out = [spec["plan"]["kind"]]
    if spec["plan"]["kind"] == "max_customers":
        out.append("method_" + spec["plan"]["method"])
    if res.calls_completed:
        out.append("returned_normally")
    return out


def subchecks(tier):
    prof = common.full_profile("C14", allowed=common.FULL + ["exact", "deadlock"], horizon=(0.25, 14.0))
    prof.weights.update({"exact": 0.12, "deadlock": 0.1, "tracker": 0.3})
    base = system_subcheck("lattice", prof, lambda spec: [Horizon()], nontrivial, classes=classes,
                            n={"quick": 9600, "thorough": 60000}, abort_is_violation="C14",
                            rule="full lattice incl. exact/trackers/deadlock detector; horizon + count monitor")
    region = system_subcheck("sched_blocked", common.region_profile("C14", plans=("max_time", "max_customers")), lambda spec: [Horizon()],
                             lambda a, spec, res: a.get("rec_interrupted_service", 0) >= 1 and a.get("blocked_records", 0) >= 1, classes=classes,
                             n={"quick": 3600, "thorough": 30000}, abort_is_violation="C14",
                             rule="pre-emptive schedules x blocking region (heavy load, grid times)")
    wd = {"exact": 1.0, "schedule": 0.3, "reneging": 0.3, "priorities": 0.3, "capacity": 0.3, "batching": 0.2, "self_loops": 0.3, "inf": 0.1}
    dec = S.Profile(list(wd), weights=wd, required=("exact",), numeric="decgrid", max_nodes=2, max_classes=2, plans=("max_time_decimal",),
                    horizon=(1.0, 8.0), budget=600, resumptions=(1, 3), excluded=common.EXCL["C14"])
    exact_dec = system_subcheck("exact_decimal", dec, lambda spec: [Horizon()], lambda a, spec, res: a.get("events", 0) >= 20, classes=classes,
                                n={"quick": 3600, "thorough": 30000}, abort_is_violation="C14",
                                rule="exact arithmetic on a 0.1 grid with horizons that are decimal (non-dyadic) numbers: an event at Decimal('1.1') is strictly before the float 1.1")
    feed = system_subcheck("slot_feed", common.slot_feed_profile("C14", downstream="int", more_weights={"reneging": 0.7, "capacity": 0.5}, max_nodes=3,
                                                                  node_kinds=("slotted", "int", "schedule")),
                           lambda spec: [Horizon()], lambda a, spec, res: a.get("rec_interrupted_service", 0) >= 1 and a.get("events", 0) >= 40,
                           classes=classes, n={"quick": 3000, "thorough": 20000}, abort_is_violation="C14",
                           rule="capacitated pre-emptive slotted node feeding ordinary and scheduled nodes (reneging, blocking downstream): "
                                "customers that were interrupted and resumed keep being owed their events")
    mixed = system_subcheck("mixed_calls", common.full_profile("C14", plans=("mixed",), horizon=(2.0, 10.0)), lambda spec: [Horizon()],
                            lambda a, spec, res: a.get("events", 0) >= 30 and res.calls_completed >= 2,
                            classes=lambda a, spec, res: classes(a, spec, res) + ["calls_" + "-".join(x[0][4:] for x in spec["plan"]["steps"])],
                            n={"quick": 4800, "thorough": 30000}, abort_is_violation="C14",
                            rule="one Simulation continued by 2-4 calls of simulate_until_max_time and simulate_until_max_customers in any order (increasing horizons, "
                                 "increasing absolute counts, all four counting methods); same horizon / count monitor per call")
    combo = system_subcheck("preempt_combo", common.combo_profile("C14", more_weights={"zero_servers": 0.2}, plans=("max_time", "max_customers")),
                            lambda spec: [Horizon()], lambda a, spec, res: a.get("ev_class_change", 0) + a.get("rec_interrupted_service", 0) >= 2 and a.get("ev_shift_change", 0) >= 2,
                            classes=classes, n={"quick": 3000, "thorough": 20000}, abort_is_violation="C14",
                            rule="schedules with zero-server shifts x pre-emptive priorities x timed class changes x reneging at the same nodes: every event owed to a waiting "
                                 "customer stays scheduled through shifts without servers")
    return [base, region, exact_dec, feed, mixed, combo, fuzz_subcheck(base, tier)]
