"""C07 -- Type I blocking: blocked iff destination full, unblocked FIFO at once."""
from ..sysprop import system_subcheck
from ..monitors.capacity import Blocking
from .. import strategies as S
from . import common

ID = "C07"
RULE = ("Restricted networks: queue capacities {0,1,2} (and inf), fixed servers 1-3 and infinite-server sources, any topology with "
        "self-loops, all routing objects, priorities, non-pre-emptive schedules as blocking sources, batching, reneging, class "
        "changes; no pre-emption.  The monitor keeps its own per-destination list of blocked customers in the order it saw them "
        "become blocked.  After every event: a finished customer has moved on or is blocked; nobody is blocked while its destination "
        "has space; blocked customers hold their server and keep their destination; customers that entered a node are exactly the "
        "longest-blocked ones; Ciw's blocked_queue equals the model; time_blocked equals the monitor's own timestamps; a blocked "
        "customer never completes again.  Non-trivial: >= 1 block and >= 1 unblock; distinct by spec digest.")
ASSUMPTIONS = ["capacity of a destination = queue capacity + servers from the spec (fixed-server nodes)"]
WALL = {"quick": 150, "thorough": 540}

ALLOWED = ["inf", "schedule", "capacity", "priorities", "reneging", "jockeying", "batching", "cc_after", "cc_waiting", "discipline",
           "server_priority", "routing_objects", "process_routing", "flexible_routing", "self_loops", "zero_service", "tracker",
           "system_capacity", "baulking"]


def nontrivial(a, spec, res):
    return a.get("blocks", 0) >= 1 and a.get("unblocks", 0) >= 1


def classes(a, spec, res):
    out = []
    if a.get("max_blocked_to_one_node", 0) >= 2:
        out.append(">=2_blocked_to_one_node")
    for k in ("cascades", "self_loop_blocks", "unblock_by_renege", "multi_server_blockers"):
        if a.get(k):
            out.append(k)
    return out


def profile():
    w = {"capacity": 1.0, "inf": 0.15, "schedule": 0.2, "priorities": 0.4, "reneging": 0.3, "jockeying": 0.4, "batching": 0.25,
         "cc_after": 0.2, "cc_waiting": 0.15, "discipline": 0.3, "server_priority": 0.15, "routing_objects": 0.4,
         "process_routing": 0.3, "flexible_routing": 0.2, "self_loops": 0.6, "zero_service": 0.4, "tracker": 0.1,
         "system_capacity": 0.1, "baulking": 0.1, "sched_preempt": 0.0}
    return S.Profile(ALLOWED, weights=w, required=("capacity",), numeric="mixed", max_nodes=4, max_classes=3,
                     plans=("max_time", "max_time", "max_customers"), horizon=(6.0, 18.0), budget=600, caps=(0, 1, 1, 2), load="heavy")


def subchecks(tier):
    return [system_subcheck("restricted", profile(), lambda spec: [Blocking(spec)], nontrivial, classes=classes, obs=True,
                            n={"quick": 9600, "thorough": 50000}, rule="restricted networks; blocked-order model monitor")]
