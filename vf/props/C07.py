"""C07 -- Type I blocking: blocked iff destination full, unblocked FIFO at once."""
from ..sysprop import system_subcheck
from ..monitors.capacity import Blocking
from .. import strategies as S
from . import common

ID = "C07"
RULE = ("Restricted networks: queue capacities {0,1,2} (and inf), fixed servers 1-3 and infinite-server sources, any topology with "
        "self-loops, all routing objects, priorities, non-pre-emptive schedules as blocking sources, batching, reneging, class "
        "changes; no pre-emption except priority re-routing in the overfull sub-check.  The monitor keeps its own per-destination list of blocked customers in the order it saw them "
        "become blocked.  After every event: a finished customer has moved on or is blocked; nobody is blocked while its destination "
        "has space; blocked customers hold their server and keep their destination; customers that entered a node are exactly the "
        "longest-blocked ones; Ciw's blocked_queue equals the model; time_blocked equals the monitor's own timestamps; a blocked "
        "customer never completes again.  Non-trivial: >= 1 block and >= 1 unblock; distinct by spec digest.")
ASSUMPTIONS = ["capacity of a destination = queue capacity + servers from the spec (fixed-server nodes)"]
TECHNIQUE = 'property-based testing: generated networks with a model of the blocking order (model-based oracle; restricted, cascade, over-full and slotted-blocker profiles; entry order within an event from the log of the observing node) and a differential independent reference simulator on tie-free deterministic inputs'
WALL = {"quick": 150, "thorough": 540}

ALLOWED = ["inf", "schedule", "capacity", "priorities", "reneging", "jockeying", "batching", "cc_after", "cc_waiting", "discipline",
           "server_priority", "routing_objects", "process_routing", "flexible_routing", "self_loops", "zero_service", "tracker",
           "system_capacity", "baulking"]


def nontrivial(a, spec, res):
    return a.get("blocks", 0) >= 1 and a.get("unblocks", 0) >= 1


def classes(a, spec, res):
    out = []
    if a.get("max_blocked_to_one_node", 0) >= 2:
        out.append(">=2_blocked_to_one_node")
    for k in ("cascades", "self_loop_blocks", "unblock_by_renege", "multi_server_blockers", "several_unblocked_into_one_node_in_one_event"):
        if a.get(k):
            out.append(k)
    return out


def profile():
    w = {"capacity": 1.0, "inf": 0.15, "schedule": 0.2, "priorities": 0.4, "reneging": 0.3, "jockeying": 0.4, "batching": 0.25,
         "cc_after": 0.2, "cc_waiting": 0.15, "discipline": 0.3, "server_priority": 0.15, "routing_objects": 0.4,
         "process_routing": 0.3, "flexible_routing": 0.2, "self_loops": 0.6, "zero_service": 0.4, "tracker": 0.1,
         "system_capacity": 0.1, "baulking": 0.1, "sched_preempt": 0.0}
    return S.Profile(ALLOWED, weights=w, required=("capacity",), numeric="mixed", max_nodes=4, max_classes=3,
                     plans=("max_time", "max_time", "max_customers"), horizon=(6.0, 18.0), budget=600, caps=(0, 1, 1, 2), load="heavy")


def subchecks(tier):
    return [system_subcheck("restricted", profile(), lambda spec: [Blocking(spec)], nontrivial, classes=classes, obs=True,
                            n={"quick": 9600, "thorough": 50000}, rule="restricted networks; blocked-order model monitor")]


# ---- second oracle: independent reference simulator (deterministic core, tie-free inputs) --------------------------------
from hypothesis import strategies as st   # noqa: E402
from .. import observe as O               # noqa: E402
from .. import refdes                     # noqa: E402
from ..runner import SubCheck             # noqa: E402

ARR = [0.3137, 0.4759, 0.7321, 1.1347, 0.8911, 0.5903, 0.6607, 1.4143]
SRV = [0.2371, 0.4127, 0.6733, 0.9719, 1.3127, 1.7939, 2.0341, 0.5323, 2.8713, 1.1093]


@st.composite
def ref_case(draw):
    n = draw(st.integers(1, 3))
    nodes = [{"servers": {"kind": "int", "c": draw(st.integers(1, 3))}, "cap": draw(st.sampled_from([0, 0, 1, 1, 2, "inf"])),
              "discipline": draw(st.sampled_from(["FIFO", "FIFO", "LIFO"]))} for _ in range(n)]
    ncls = draw(st.integers(1, 2))
    prios = [0] if ncls == 1 else draw(st.sampled_from([[0, 0], [0, 1], [1, 0]]))
    classes = []
    for ci in range(ncls):
        arr = [draw(st.lists(st.sampled_from(ARR), min_size=1, max_size=4)) if draw(st.integers(0, 9)) < 7 else None for _ in range(n)]
        if ci == ncls - 1 and all(a is None for c in classes for a in c["arrival"]) and all(a is None for a in arr):
            arr[0] = [0.4759, 1.1347]
        routes = draw(st.lists(st.lists(st.integers(1, n), min_size=0, max_size=5), min_size=1, max_size=3))
        # distinct phase per stream so that two streams never fire at the same instant
        arr = [None if a is None else [round(a[0] + 0.01093 * (ci * 3 + i + 1), 6)] + a[1:] + [round(a[0] + 0.00417 * (i + 1), 6)] for i, a in enumerate(arr)]
        classes.append({"name": "C%d" % ci, "priority": prios[ci], "arrival": [None if a is None else ["seq", a] for a in arr],
                        "service": [["keyed", draw(st.lists(st.sampled_from(SRV), min_size=2, max_size=5))] for _ in range(n)],
                        "routing": {"kind": "process", "routes": routes}})
    return {"nodes": nodes, "classes": classes, "seed": draw(st.integers(0, 1000)),
            "plan": {"kind": "max_time", "T": [draw(st.integers(24, 100)) / 4.0 + 0.01371]}, "event_budget": 1500}


class _Ties(O.Monitor):
    def start(self, Q):
        self.ties = 0

    def after(self, Q, node, etype, nxt):
        m = nxt.next_event_date
        if m != float("inf") and sum(1 for nd in Q.active_nodes if nd.next_event_date == m) > 1:
            self.ties += 1
        for nd in Q.transitive_nodes:
            ni = nd.next_individual
            if isinstance(ni, list) and len(ni) > 1:
                self.ties += 1


def ref_execute(case):
    ties = _Ties()
    res = O.run_case(case, [ties])
    out = {"violations": [], "nontrivial": False, "classes": [], "aborted": res.aborted, "budget_hit": res.budget_hit, "events": res.n_events}
    if res.aborted or res.budget_hit or res.Q is None:
        out["classes"] = ["inconclusive"]
        return out
    if ties.ties:
        out["classes"] = ["discarded_tie"]
        return out
    Q = res.Q
    got, rej = [], []
    for ind in list(Q.nodes[-1].all_individuals) + [i for nd in Q.transitive_nodes for i in O.customers(nd)]:
        for r in ind.data_records:
            if r.record_type == "service":
                got.append((r.id_number, r.node, r.arrival_date, r.service_start_date, r.service_end_date, r.exit_date, r.destination))
            elif r.record_type == "rejection":
                rej.append((r.id_number, r.node, r.arrival_date, r.queue_size_at_arrival))
    got.sort()
    rej.sort()
    exp, exp_rej = refdes.simulate(case, case["plan"]["T"][0])
    if exp is None:
        out["classes"] = ["discarded_tie"]
        return out

    def close(a, b):
        return len(a) == len(b) and all(x[0] == y[0] and x[1] == y[1] and x[-1] == y[-1] and all(abs(p - q) <= 1e-9 for p, q in zip(x[2:-1], y[2:-1]))
                                        for x, y in zip(a, b))
    if not close(got, exp):
        k = 0
        while k < min(len(got), len(exp)) and close([got[k]], [exp[k]]):
            k += 1
        out["violations"].append({"property": ID, "clause": "C07.records-equal-reference-simulator", "site": "refdes",
                                  "details": {"first_difference": k, "ciw": repr(got[k:k + 2]), "reference": repr(exp[k:k + 2]), "counts": [len(got), len(exp)]}})
    elif not close([(a, b, c, d) for a, b, c, d in rej], [(a, b, c, d) for a, b, c, d in exp_rej]):
        out["violations"].append({"property": ID, "clause": "C07.rejections-equal-reference-simulator", "site": "refdes",
                                  "details": {"ciw": repr(rej[:4]), "reference": repr(exp_rej[:4])}})
    blocked = sum(1 for r in got if r[5] - r[4] > 1e-12)
    waited = sum(1 for r in got if r[3] - r[2] > 1e-12)
    out["nontrivial"] = len(got) >= 10 and blocked >= 1 and waited >= 1
    out["activity"] = {"records": len(got), "blocked_records": blocked, "waited_records": waited, "rejections": len(rej)}
    out["classes"] = [k for k, v in (("blocked", blocked), ("waited", waited), ("rejections", len(rej))) if v]
    out["score"] = blocked
    return out


def cascade_profile():
    """Few nodes, many servers, no waiting room, self-loops: long unblocking cascades released by a single departure."""
    w = {"capacity": 1.0, "self_loops": 1.0, "priorities": 0.2, "batching": 0.3, "zero_service": 0.2}
    return S.Profile(list(w), weights=w, required=("capacity", "self_loops"), numeric="grid", max_nodes=2, max_classes=2, plans=("max_time",),
                     horizon=(8.0, 20.0), budget=1200, caps=(0, 0, 0, 1), load="heavy", max_c=16, stay=0.7, resumptions=(1, 1))


_base_subchecks = subchecks


def slotted_profile():
    w = {"capacity": 1.0, "slotted": 1.0, "slot_capacitated": 0.5, "priorities": 0.3, "self_loops": 0.4, "batching": 0.2, "discipline": 0.2, "routing_objects": 0.3,
         "zero_service": 0.2, "inf": 0.1}
    return S.Profile(list(w), weights=w, required=("capacity", "slotted"), numeric="grid", max_nodes=3, max_classes=2, plans=("max_time",), horizon=(8.0, 20.0),
                     budget=600, caps=(0, 0, 1), load="heavy", max_c=2, stay=0.7)


def overfull_profile():
    w = {"capacity": 1.0, "reneging": 1.0, "jockeying": 1.0, "priorities": 0.6, "prio_preempt": 0.5, "prio_reroute": 0.5, "batching": 0.4,
         "discipline": 0.2, "routing_objects": 1.0, "self_loops": 0.4, "zero_service": 0.2, "cc_waiting": 0.1}
    return S.Profile(list(w), weights=w, required=("capacity", "reneging", "jockeying", "routing_objects"), numeric="grid", max_nodes=3, max_classes=3,
                     plans=("max_time",), horizon=(8.0, 20.0), budget=700, caps=(0, 0, 1), load="heavy", max_c=2)


def subchecks(tier):   # noqa: F811
    return _base_subchecks(tier) + [
        system_subcheck("cascade", cascade_profile(), lambda spec: [Blocking(spec)], lambda a, spec, res: a.get("max_cascade", 0) >= 3,
                        classes=lambda a, spec, res: ["cascade>=%d" % k for k in (3, 6, 9, 11, 13) if a.get("max_cascade", 0) >= k], obs=True,
                        n={"quick": 4800, "thorough": 30000}, rule="1-2 nodes, up to 16 servers, no waiting room, self-loops: unblocking cascades of a dozen links released by one departure; same monitor"),
        system_subcheck("overfull", overfull_profile(), lambda spec: [Blocking(spec)],
                        lambda a, spec, res: a.get("max_overfull", 0) >= 1 and a.get("unblocks", 0) >= 1,
                        classes=lambda a, spec, res: ["overfull>=%d" % k for k in (1, 2, 3) if a.get("max_overfull", 0) >= k] + classes(a, spec, res), obs=True,
                        n={"quick": 4800, "thorough": 30000},
                        rule="jockeying renegers and re-routed pre-empted customers ignore capacities: nodes above their capacity with customers blocked towards them; same monitor"),
        system_subcheck("slotted_blockers", slotted_profile(), lambda spec: [Blocking(spec)], nontrivial, classes=classes, obs=True,
                        n={"quick": 3600, "thorough": 20000},
                        rule="slotted (non-pre-emptive) nodes with small finite capacities inside blocking cycles: nodes without server objects as blockers and as destinations; same monitor"),
        SubCheck("refdes", ref_execute, strategy=ref_case(), n={"quick": 4800, "thorough": 40000}, kind="differential", is_spec=False,
                 rule=("independent reference simulator (vf/refdes.py: fixed servers, FIFO/LIFO, non-pre-emptive priorities, finite capacities with "
                       "rejection and Type I blocking, scripted routes, id-keyed service times) predicts every service and rejection record of "
                       "tie-free deterministic networks; non-trivial = >= 10 records with >= 1 blocked and >= 1 waited"))]
