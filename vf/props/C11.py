"""C11 -- pre-emptive priorities."""
from ..sysprop import system_subcheck
from ..monitors.order import PreemptivePriorities
from .. import strategies as S
from . import common

ID = "C11"
RULE = ("Networks with priority_preempt in {resume, restart, resample, reroute} at nodes with 1-3 servers, 2-3 priority classes, "
        "infinite capacities (customers never blocked), batches, class change while waiting (priority upgrades trigger pre-emption), "
        "several nodes; all service distributions logged.  Monitor: at a pre-emptive node no waiting customer has strictly higher "
        "priority than a customer in live service; at each pre-emption the victim has the largest priority number in service and the "
        "latest service start among those, the pre-emptor is strictly better, and an interrupted-service record with exit = now is "
        "written.  Audit per visit (episodes = interrupted records + final service record): resume - one sample, total time served == "
        "it; restart - one sample, every episode's intended time == it; resample - one fresh sample per episode drawn at its start; "
        "reroute - no further episode at this node.  Non-trivial: >= 1 pre-emption; distinct by digest.")
ASSUMPTIONS = ["tolerance 1e-9 on sums of episode durations (resume)"]
TECHNIQUE = 'property-based testing: pre-emption monitor (no inversion, victim choice) and per-visit bookkeeping audit against logged samples'
WALL = {"quick": 150, "thorough": 540}

ALLOWED = ["priorities", "prio_preempt", "prio_reroute", "batching", "cc_waiting", "cc_after", "discipline", "routing_objects",
           "self_loops", "inf", "server_priority", "process_routing", "exact"]


def nontrivial(a, spec, res):
    return a.get("preemptions", 0) >= 1


def classes(a, spec, res):
    out = [k for k in ("victim_among_several", "preempted_twice", "preempt_by_class_change", "reroutes", "episodes_checked") if a.get(k)]
    for nd in spec["nodes"]:
        if nd.get("prio_preempt"):
            out.append("option_" + nd["prio_preempt"])
    return sorted(set(out))


def subchecks(tier):
    w = {"priorities": 1.0, "prio_preempt": 1.0, "prio_reroute": 0.35, "batching": 0.3, "cc_waiting": 0.3, "cc_after": 0.15,
         "discipline": 0.2, "routing_objects": 0.3, "self_loops": 0.4, "inf": 0.1, "server_priority": 0.15, "process_routing": 0.15, "exact": 0.25}
    prof = S.Profile(ALLOWED, weights=w, required=("priorities", "prio_preempt"), numeric="mixed", max_nodes=3, max_classes=3,
                     plans=("max_time", "max_customers"), horizon=(5.0, 14.0), budget=600, load="heavy",
                     excluded=("floatcmp_precision",))      # exact mode only at k >= 20: the audit compares durations with the float samples at 1e-9
    # pre-emptive priorities at nodes with a non-pre-emptive schedule: servers finishing a customer after their shift are not interrupted, everybody
    # on a server of the current shift is
    wo = {"priorities": 1.0, "prio_preempt": 1.0, "schedule": 1.0, "sched_preempt": 0.0, "cc_waiting": 0.4, "batching": 0.3, "self_loops": 0.3, "discipline": 0.2,
          "server_priority": 0.15}
    over = S.Profile(list(wo), weights=wo, required=("priorities", "prio_preempt", "schedule"), numeric="grid", max_nodes=2, max_classes=3, plans=("max_time",),
                     horizon=(8.0, 20.0), budget=600, load="heavy", long_service=0.5, max_c=2)
    overtime = system_subcheck("overtime", over, lambda spec: [PreemptivePriorities(spec)],
                               lambda a, spec, res: a.get("preemptions", 0) >= 1 and a.get("states_with_overtime_service", 0) >= 1,
                               classes=lambda a, spec, res: classes(a, spec, res) + (["overtime_service_seen"] if a.get("states_with_overtime_service") else []),
                               obs=True, log=True, n={"quick": 3600, "thorough": 20000},
                               rule="pre-emptive priorities at nodes with non-pre-emptive schedules (overtime servers are exempt from pre-emption, on-duty servers are not); "
                                    "same monitor and audit")
    return [overtime, system_subcheck("system", prof, lambda spec: [PreemptivePriorities(spec)], nontrivial, classes=classes, obs=True, log=True,
                            n={"quick": 7200, "thorough": 40000}, rule="pre-emption monitor + per-visit bookkeeping audit")]
