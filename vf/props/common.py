"""Profiles shared by property modules."""
from .. import strategies as S

FULL = [f for f in S.ALL_FEATURES if f not in ("exact", "deadlock")]


# exclusion predicates for open known findings (vf/findings.py); applied by construction and counted
# Per property: only the open findings that violate *that property's own clauses* are excluded from its generator
# (established by dropping each exclusion in turn, VERIF_DROP_EXCLUSIONS, and looking at which clauses fail).
EXCL = {
    "C01": (),
    "C02": (),
    "C03": (),
    "C04": (),
    "C05": (),
    "C06": ("jockey_capacity",),
    "C08": (),
    "C09": (),
    "C10": (),
    "C14": (),
    "C15": (),
    "C16": (),
    "C17": (),
    "C20": (),
}
KNOWN_EXCLUSIONS = ("jockey_capacity",)


def full_profile(pid=None, **kw):
    weights = {"inf": 0.25, "zero_servers": 0.08, "schedule": 0.3, "sched_preempt": 0.5, "sched_reroute": 0.3,
               "slotted": 0.2, "ps": 0.12, "capacity": 0.45, "system_capacity": 0.12, "priorities": 0.45,
               "prio_preempt": 0.3, "prio_reroute": 0.3, "reneging": 0.3, "jockeying": 0.4, "baulking": 0.2,
               "batching": 0.25, "cc_after": 0.25, "cc_waiting": 0.2, "discipline": 0.25, "server_priority": 0.15,
               "tracker": 0.15, "routing_objects": 0.4, "process_routing": 0.3, "flexible_routing": 0.3,
               "self_loops": 0.5, "custom_dists": 0.3, "zero_service": 0.5}
    args = dict(allowed=FULL, weights=weights, numeric="mixed", max_nodes=3, max_classes=3,
                plans=("max_time", "max_time", "max_customers", "mixed"), horizon=(4.0, 14.0), budget=500, finite_arrivals=0.12)
    args["excluded"] = EXCL[pid] if pid in EXCL else KNOWN_EXCLUSIONS
    args.update(kw)
    return S.Profile(**args)


def region_profile(pid, **kw):
    """Pre-emptive schedules together with blocking (finite capacities), heavy load, tie-rich grid times: the region in which several
    cooperating code paths (interrupt a blocked customer, restart it, release it while interrupted) are exercised."""
    w = {"schedule": 1.0, "sched_preempt": 1.0, "capacity": 1.0, "priorities": 0.3, "self_loops": 0.4, "routing_objects": 0.2, "batching": 0.2,
         "discipline": 0.2, "server_priority": 0.1, "cc_waiting": 0.1, "tracker": 0.0}
    args = dict(weights=w, required=("schedule", "capacity"), numeric="grid", max_nodes=3, max_classes=2, plans=("max_time",), horizon=(8.0, 20.0),
                budget=500, load="heavy", caps=(0, 1, 1, 2), resumptions=(1, 2), excluded=EXCL.get(pid, ()))
    args.update(kw)
    w.update(args.pop("more_weights", {}))
    return S.Profile(list(w), **args)


def slot_feed_profile(pid, downstream="schedule", **kw):
    """A capacitated, pre-emptive slotted node (long services, heavy load: real interruptions and resumptions) feeding a node of the
    given kind: customers reach the downstream node carrying whatever state an interruption and resumption left on them."""
    w = {"slotted": 1.0, "slot_capacitated": 1.0, "slot_preempt": 1.0, "schedule": 1.0, "sched_preempt": 0.3, "priorities": 0.3, "batching": 0.4,
         "reneging": 0.3, "capacity": 0.25, "discipline": 0.2, "self_loops": 0.2, "cc_waiting": 0.1}
    args = dict(weights=w, required=("slotted", "slot_capacitated", "slot_preempt"), numeric="grid", max_classes=2, plans=("max_time",),
                horizon=(8.0, 20.0), budget=600, load="heavy", resumptions=(1, 1), long_service=0.5, node_kinds=("slotted", downstream),
                stay=0.6, excluded=EXCL.get(pid, ()))
    args.update(kw)
    w.update(args.pop("more_weights", {}))
    return S.Profile(list(w), **args)


def combo_profile(pid, **kw):
    """Pre-emption of both kinds on the same nodes: pre-emptive priorities (all options incl. re-route) at nodes with pre-emptive schedules, class
    changes while waiting that raise the priority, reneging, batches; tie-rich grid times, heavy load, three classes."""
    w = {"priorities": 1.0, "prio_preempt": 1.0, "prio_reroute": 0.5, "schedule": 1.0, "sched_preempt": 1.0, "sched_reroute": 0.25, "cc_waiting": 0.6,
         "cc_after": 0.2, "reneging": 0.35, "batching": 0.4, "capacity": 0.25, "self_loops": 0.4, "discipline": 0.2, "routing_objects": 0.2,
         "server_priority": 0.1, "zero_service": 0.2}
    args = dict(weights=w, required=("priorities", "prio_preempt", "schedule", "sched_preempt"), numeric="grid", max_nodes=2, max_classes=3, plans=("max_time",),
                horizon=(8.0, 20.0), budget=600, load="heavy", max_c=2, stay=0.5, resumptions=(1, 2), excluded=EXCL.get(pid, ()))
    args.update(kw)
    w.update(args.pop("more_weights", {}))
    return S.Profile(list(w), **args)

