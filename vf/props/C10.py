"""C10 -- sampled inputs honoured."""
import copy

from hypothesis import strategies as st

from ..sysprop import system_subcheck
from ..monitors.samples import SamplesAudit
from .. import strategies as S
from .. import observe as O
from ..runner import SubCheck
from . import common

ID = "C10"
RULE = ("(a) NetSpecs with every built-in distribution kind plus custom time- and state-dependent ones, all wrapped in logging "
        "pass-through distributions (several streams per node, batches 0-4, schedules, slotted, infinite servers, PS, blocking, "
        "reneging, class changes; non-pre-emptive).  Audit: k-th arrival of a stream at the float partial sum of its logged "
        "inter-arrival samples (same additions => exact), samples drawn = events + 1, each arrival event creates exactly the logged "
        "batch size, every service start consumed exactly one sample drawn at that instant for that customer and class, and "
        "service_end == start + sample at ordinary nodes.  (b) Fault injection: the k-th draw of one arrival / batch / service "
        "stream returns an invalid value (negative, NaN, None, string, non-integer or negative batch); if the draw was reached the "
        "run must have raised.  Non-trivial: (a) >= 2 streams, >= 10 arrival events, >= 10 completed services; (b) bad draw reached.")
ASSUMPTIONS = ["float equality is legitimate: oracle and code perform the same additions on the same operands",
               "pre-emptive restarts are audited by C11/C12, not here"]
TECHNIQUE = 'property-based testing with logging pass-through distributions (audit of arrival dates, batch sizes, service durations against logged samples) and fault injection of invalid samples'
WALL = {"quick": 150, "thorough": 540}

ALLOWED = [f for f in common.FULL if f not in ("prio_preempt", "prio_reroute", "sched_preempt", "sched_reroute", "slot_preempt")]


def nontrivial(a, spec, res):
    return a.get("streams", 0) >= 2 and a.get("arrival_events", 0) >= 10 and a.get("completed_services", 0) >= 10


def classes(a, spec, res):
    out = []
    kinds = set()
    for c in spec["classes"]:
        for role in ("arrival", "service", "batch"):
            for d in c.get(role) or []:
                if d:
                    kinds.add(d[0])
    return sorted("dist_" + k for k in kinds)


BAD_TIME = [-1, -0.5, "nan", None, "x", -1e-12, -5.5e-17, -1e-7]
BAD_BATCH = [2.5, -1, None, "x", 1.0]


@st.composite
def bad_spec(draw, prof):
    spec = draw(S.netspec(prof))
    spec = copy.deepcopy(spec)
    role = draw(st.sampled_from(["arrival", "service", "service", "batch"]))
    k = draw(st.integers(0, 6))
    cands = [(ci, i) for ci, c in enumerate(spec["classes"]) for i, a in enumerate(c["arrival"]) if a is not None]
    ci, i = draw(st.sampled_from(cands))
    c = spec["classes"][ci]
    if role == "arrival":
        c["arrival"][i] = ["bad", c["arrival"][i], k, draw(st.sampled_from(BAD_TIME))]
    elif role == "service":
        c["service"][i] = ["bad", c["service"][i], k, draw(st.sampled_from(BAD_TIME))]
    else:
        if not c.get("batch"):
            c["batch"] = [None] * len(spec["nodes"])
        c["batch"][i] = ["bad", c["batch"][i] or ["det", 1], k, draw(st.sampled_from(BAD_BATCH))]
    spec["_bad"] = [role, ci, i]
    return spec


def inject_execute(spec):
    from .. import build as B
    role, ci, i = spec["_bad"]
    res = O.run_case(spec, [], obs=False, log=False)
    reached = False
    b = res.built
    cname = spec["classes"][ci]["name"]
    key = {"arrival": "arrival_distributions", "service": "service_distributions", "batch": "batching_distributions"}[role]
    d = b.network_kwargs[key][cname][i]
    reached = bool(d.reached[0])
    viol = []
    if reached and not res.aborted:
        viol.append({"property": ID, "clause": "C10.invalid-sample-raises", "site": role,
                     "details": {"role": role, "value": repr(spec["classes"][ci][{"arrival": "arrival", "service": "service", "batch": "batch"}[role]][i][3]),
                                 "node": i + 1, "node_kind": spec["nodes"][i]["servers"]["kind"], "ps": bool(spec["nodes"][i].get("ps"))}})
    return {"violations": viol, "nontrivial": reached, "classes": ["reached_" + role] if reached else ["not_reached"],
            "activity": {"reached": int(reached), "raised": int(bool(res.aborted))}, "aborted": None, "budget_hit": res.budget_hit,
            "events": res.n_events, "score": res.n_events}


def subchecks(tier):
    w = dict(common.full_profile().weights)
    w.update({"custom_dists": 0.6, "batching": 0.5, "inf": 0.3})
    prof = S.Profile(ALLOWED, weights=w, numeric="mixed", max_nodes=3, max_classes=3, plans=("max_time", "max_customers"),
                     horizon=(5.0, 14.0), budget=600, excluded=common.EXCL["C10"])
    simple = S.Profile(["inf", "capacity", "priorities", "batching", "routing_objects", "self_loops", "ps", "schedule", "slotted"],
                       weights={"ps": 0.15, "schedule": 0.2, "slotted": 0.15, "inf": 0.2}, numeric="mixed", max_nodes=2, max_classes=2,
                       plans=("max_time",), horizon=(4.0, 10.0), budget=300, resumptions=(1, 1))
    return [
        system_subcheck("audit", prof, lambda spec: [SamplesAudit(spec)], nontrivial, classes=classes, obs=True, log=True,
                        n={"quick": 7200, "thorough": 40000}, rule="logged samples vs arrival events, batch sizes and service records"),
        SubCheck("inject", inject_execute, strategy=bad_spec(simple), n={"quick": 4800, "thorough": 20000}, kind="fault-injection",
                 rule="k-th draw of one stream returns an invalid value; reached => raised", is_spec=True),
    ]
