"""C04 -- server exclusivity and true utilisation."""
from ..sysprop import system_subcheck
from ..monitors.servers import Exclusivity
from . import common

ID = "C04"
RULE = ("NetSpecs from the full lattice (finite-server nodes with fixed c or schedules incl. overtime and pre-emptive shifts, "
        "blocking, priorities incl. pre-emptive, reneging, class changes, server-priority functions).  Monitor after every event: "
        "on-duty servers == c, live services <= servers, server<->customer attachment bijective, a server keeps its customer until "
        "the customer leaves the node (non-pre-emptive nodes; blocked time included); own integration of per-server attached time and "
        "lifetime.  Audit: record intervals per (node, server id) never overlap; node.server_utilisation == attached/lifetime (1e-9) "
        "for single-call runs without pre-emption.  Non-trivial: some event with all servers busy and a queue, and either >= 5 "
        "completions on one server id or an overtime completion; distinct by spec digest.")
ASSUMPTIONS = ["live service = ind.server is a Server present in node.servers with server.cust is ind",
               "utilisation clause for completed simulate_until_max_time plans (one or several calls); busy time = time attached to a customer"]
TECHNIQUE = "property-based testing: generated finite-server networks; attachment monitor after every event plus differential audit of node utilisation against the monitor's own integration of server attachment time"
WALL = {"quick": 150, "thorough": 540}


def nontrivial(a, spec, res):
    return a.get("all_busy_with_queue", 0) >= 1 and (a.get("servers_with_5_completions", 0) >= 1 or a.get("overtime_completions", 0) >= 1)


def classes(a, spec, res):
    out = []
    for k in ("utilisation_checked", "overtime_completions", "blocked_records", "rec_interrupted_service", "servers_with_5_completions"):
        if a.get(k):
            out.append(k)
    return out


def upgrade_profile():
    from .. import strategies as S
    w = {"priorities": 1.0, "prio_preempt": 1.0, "prio_reroute": 1.0, "cc_waiting": 1.0, "self_loops": 1.0, "schedule": 0.3, "sched_preempt": 0.3,
         "batching": 0.4, "discipline": 0.4, "routing_objects": 0.2, "server_priority": 0.2, "capacity": 0.2, "reneging": 0.15}
    return S.Profile(list(w), weights=w, required=("priorities", "prio_preempt", "prio_reroute", "cc_waiting", "self_loops"), numeric="grid", max_nodes=2,
                     max_classes=3, plans=("max_time",), horizon=(8.0, 20.0), budget=600, load="heavy", max_c=2, stay=0.5, excluded=common.EXCL["C04"])


def long_schedule_profile():
    from .. import strategies as S
    w = {"schedule": 1.0, "sched_preempt": 0.0, "priorities": 0.2, "batching": 0.2, "discipline": 0.2, "server_priority": 0.2}
    return S.Profile(list(w), weights=w, required=("schedule",), numeric="grid", max_nodes=1, max_classes=2, plans=("max_time",), horizon=(600.0, 900.0),
                     budget=12000, load="mixed", max_c=6, resumptions=(1, 3), node_kinds=("schedule",), excluded=common.EXCL["C04"])


def subchecks(tier):
    prof = common.full_profile("C04", horizon=(6.0, 18.0), plans=("max_time", "max_time", "max_time", "max_customers"), resumptions=(1, 4))
    prof.weights.update({"ps": 0.0, "inf": 0.1, "slotted": 0.05, "schedule": 0.45, "capacity": 0.5, "server_priority": 0.3})
    return [system_subcheck("lattice", prof, lambda spec: [Exclusivity(spec)], nontrivial, classes=classes,
                            n={"quick": 9600, "thorough": 50000}, rule="finite-server lattice; attachment monitor + utilisation audit"),
            system_subcheck("upgrade_preempt", upgrade_profile(), lambda spec: [Exclusivity(spec)],
                            lambda a, spec, res: a.get("ev_class_change", 0) >= 1 and a.get("rec_interrupted_service", 0) >= 1, classes=classes,
                            n={"quick": 3600, "thorough": 20000},
                            rule="class change while waiting that raises the priority and pre-empts with 'reroute' (often back to the same node), "
                                 "several customers waiting, schedules; same monitor"),
            system_subcheck("long_schedule", long_schedule_profile(), lambda spec: [Exclusivity(spec)],
                            lambda a, spec, res: a.get("ev_shift_change", 0) >= 300 and a.get("utilisation_checked", 0) >= 1,
                            classes=lambda a, spec, res: classes(a, spec, res) + [k for k in ("utilisation_checked_after_several_stops",) if a.get(k)], n={"quick": 128, "thorough": 800},
                            rule="one scheduled node run over hundreds of cycles (thousands of servers created and retired), several stops: the utilisation audit over a long history"),
            system_subcheck("sched_blocked", common.region_profile("C04", resumptions=(2, 4)), lambda spec: [Exclusivity(spec)],
                            lambda a, spec, res: a.get("rec_interrupted_service", 0) >= 1 and a.get("blocked_records", 0) >= 1, classes=classes,
                            n={"quick": 4800, "thorough": 30000}, rule="pre-emptive schedules x blocking region (heavy load, grid times); same monitor")]
