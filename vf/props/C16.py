"""C16 -- pause / resume transparency (metamorphic: split run vs unsplit run)."""
import math

from .. import observe as O
from .. import strategies as S
from ..runner import SubCheck
from ..sysprop import Activity
from . import common

ID = "C16"
RULE = ("NetSpecs with continuous (tie-free) distributions over the full lattice, schedules on a grid that the split points avoid, 1-4 "
        "split points 0 < T1 < ... < T (including points before the first event).  Each case is run twice from the same seed with "
        "freshly built objects: once with a single simulate_until_max_time(T) and once with successive calls T1, ..., T.  Oracle: "
        "identical record lists (exact), identical final clock, identical per-server busy_time / total_time and node utilisation "
        "(1e-9).  A tie detector (two nodes with the same next-event date, or simultaneous completions inside a node) discards cases "
        "violating the proviso and counts them.  Non-trivial: >= 1 split with a customer in service at the pause and >= 10 records "
        "written after it; distinct by spec digest.")
ASSUMPTIONS = ["both runs are built from scratch from the JSON spec (Ciw does not copy every stateful object per Simulation)"]
TECHNIQUE = 'metamorphic property-based testing: split run vs unsplit run of the same generated (spec, seed), tie detector discards cases outside the proviso'
WALL = {"quick": 150, "thorough": 540}

ALLOWED = [f for f in common.FULL if f not in ("zero_service", "custom_dists")]


class Ties(O.Monitor):
    name = "ties"

    def start(self, Q):
        self.ties = 0

    def after(self, Q, node, etype, nxt):
        m = nxt.next_event_date
        if m != float("inf") and sum(1 for nd in Q.active_nodes if nd.next_event_date == m) > 1:
            self.ties += 1
        for nd in Q.transitive_nodes:
            ni = nd.next_individual
            if isinstance(ni, list) and len(ni) > 1:
                self.ties += 1


class PauseProbe(O.Monitor):
    name = "pauseprobe"

    def start(self, Q):
        self.in_service_at_pause = 0
        self.records_at_first_pause = None

    def after_call(self, Q, k, st, completed):
        if k < len(Q.plan_steps) - 1:
            for nd in Q.transitive_nodes:
                if any(O.live(nd, i) for i in O.customers(nd)):
                    self.in_service_at_pause += 1
            if self.records_at_first_pause is None:
                self.records_at_first_pause = _nrec(Q)


def _nrec(Q):
    n = sum(len(i.data_records) for i in Q.nodes[-1].all_individuals)
    for nd in Q.transitive_nodes:
        n += sum(len(i.data_records) for i in O.customers(nd))
    return n


def _norm(x):
    if isinstance(x, float) and math.isnan(x):
        return "nan"
    return x


def snapshot(Q):
    inds = list(Q.nodes[-1].all_individuals)
    for nd in Q.transitive_nodes:
        inds.extend(O.customers(nd))
    inds.sort(key=lambda i: i.id_number)
    recs = [tuple(_norm(f) for f in r) for i in inds for r in i.data_records]
    stats = {}
    for nd in Q.transitive_nodes:
        if O.is_ps(nd) or math.isinf(nd.c):
            continue
        stats[nd.id_number] = {"util": getattr(nd, "server_utilisation", None),
                               "servers": sorted((s.id_number, float(s.busy_time), float(s.total_time)) for s in nd.servers)}
    return {"records": recs, "clock": Q.current_time, "stats": stats, "exit_order": [i.id_number for i in Q.nodes[-1].all_individuals]}


def execute(spec):
    Ts = spec["plan"]["T"]
    a = dict(spec)
    a["plan"] = {"kind": "max_time", "T": [Ts[-1]]}
    ties = Ties()
    ra = O.run_case(a, [ties])
    probe = PauseProbe()
    rb = O.run_case(spec, [probe])
    out = {"violations": [], "nontrivial": False, "classes": [], "aborted": ra.aborted or rb.aborted,
           "budget_hit": ra.budget_hit or rb.budget_hit, "events": ra.n_events + rb.n_events, "activity": {}}
    if ra.aborted or rb.aborted or ra.budget_hit or rb.budget_hit or ra.Q is None or rb.Q is None:
        out["classes"] = ["inconclusive"]
        return out
    if ties.ties:
        out["classes"] = ["discarded_tie"]
        return out
    A, B_ = snapshot(ra.Q), snapshot(rb.Q)
    v = []
    if A["records"] != B_["records"]:
        k = 0
        while k < min(len(A["records"]), len(B_["records"])) and A["records"][k] == B_["records"][k]:
            k += 1
        v.append({"property": ID, "clause": "C16.records-identical", "site": "split",
                  "details": {"first_difference": k, "unsplit": repr(A["records"][k:k + 1])[:300], "split": repr(B_["records"][k:k + 1])[:300],
                              "counts": [len(A["records"]), len(B_["records"])]}})
    if A["clock"] != B_["clock"]:
        v.append({"property": ID, "clause": "C16.final-clock-identical", "site": "split", "details": {"unsplit": O._num(A["clock"]), "split": O._num(B_["clock"])}})
    if not v:
        for nid, sa in A["stats"].items():
            sb = B_["stats"].get(nid)
            bad = len(sa["servers"]) != len(sb["servers"])
            if not bad:
                for x, y in zip(sa["servers"], sb["servers"]):
                    if x[0] != y[0] or abs(x[1] - y[1]) > 1e-9 or abs(x[2] - y[2]) > 1e-9:
                        bad = True
            if bad:
                v.append({"property": ID, "clause": "C16.per-server-busy-and-total-time-identical", "site": "split",
                          "details": {"node": nid, "unsplit": repr(sa["servers"])[:300], "split": repr(sb["servers"])[:300],
                                      "in_service_at_pause": probe.in_service_at_pause}})
                break
        for nid, sa in A["stats"].items():
            sb = B_["stats"].get(nid)
            ua, ub = sa["util"], sb["util"]
            if (ua is None) != (ub is None) or (ua is not None and abs(float(ua) - float(ub)) > 1e-9):
                v.append({"property": ID, "clause": "C16.node-utilisation-identical", "site": "split",
                          "details": {"node": nid, "unsplit": repr(ua), "split": repr(ub), "pauses": len(Ts) - 1}})
                break
    out["violations"] = v
    after = len(B_["records"]) - (probe.records_at_first_pause or 0)
    out["nontrivial"] = probe.in_service_at_pause >= 1 and after >= 10 and len(Ts) >= 2
    out["activity"] = {"splits": len(Ts) - 1, "in_service_at_pause": probe.in_service_at_pause, "records_after_first_pause": after, "records": len(B_["records"])}
    out["classes"] = ["splits_%d" % (len(Ts) - 1)] + (["in_service_at_pause"] if probe.in_service_at_pause else [])
    out["score"] = after
    return out


def subchecks(tier):
    w = dict(common.full_profile().weights)
    w.update({"schedule": 0.4, "capacity": 0.4, "tracker": 0.0})
    prof = S.Profile(ALLOWED, weights=w, numeric="cont", max_nodes=3, max_classes=3, plans=("max_time",), horizon=(3.0, 14.0),
                     budget=800, resumptions=(2, 5), finite_arrivals=0.3, excluded=common.EXCL["C16"])
    wj = {"routing_objects": 0.3, "self_loops": 0.4, "priorities": 0.3, "capacity": 0.3, "discipline": 0.5, "batching": 0.2, "reneging": 0.2, "inf": 0.2}
    near = S.Profile(list(wj), weights=wj, numeric="jitter", max_nodes=3, max_classes=2, plans=("max_time",), horizon=(3.0, 12.0), budget=800,
                     resumptions=(3, 6), load="heavy", finite_arrivals=0.2)
    region = common.region_profile("C16", numeric="cont", resumptions=(3, 6), horizon=(6.0, 16.0), more_weights={"server_priority": 0.2})
    return [SubCheck("sched_blocked", execute, strategy=S.netspec(region), n={"quick": 4800, "thorough": 30000}, kind="metamorphic",
                     rule="same relation in the pre-emptive schedules x blocking region (zero-server shifts, customers interrupted while blocked and released from "
                          "servers that have left), several stops per run, continuous (tie-free) times"),
            SubCheck("split", execute, strategy=S.netspec(prof), n={"quick": 4800, "thorough": 30000}, kind="metamorphic",
                     rule="unsplit vs split simulate_until_max_time of the same (spec, seed)"),
            SubCheck("near_ties", execute, strategy=S.netspec(near), n={"quick": 4800, "thorough": 30000}, kind="metamorphic",
                     rule="same relation on grid times with 1e-13-scale jitter: many events within 1e-12 of each other but never equal (exact ties are discarded); random choices (SIRO, probabilistic routing) make any extra random draw visible")]
