"""C03 -- journey continuity."""
from ..sysprop import system_subcheck
from ..monitors.journey import Journey
from . import common

ID = "C03"
RULE = ("NetSpecs from the full lattice (blocking, pre-emption incl. reroute, reneging and jockeying, schedules, slotted, class "
        "changes, all routing objects), horizons such that some customers finish and some remain.  The monitor records each "
        "customer's true journey (node, entry instant) from observed location changes; at every return the audit checks, per "
        "customer, that the ordered records describe exactly that journey: first record at the arrival node/date, each moving record "
        "(service, renege, rerouted interruption) followed by a record at its destination starting at its exit date, non-moving "
        "interruptions followed by a record of the same visit, baulk/rejection terminal and alone, location now = exit iff the last "
        "record leaves the system.  Non-trivial: >= 5 customers with >= 2 records and >= 1 customer with a blocked, interrupted or "
        "reneged hop; distinct by spec digest.")
ASSUMPTIONS = ["a customer moves at most one hop per event (location changes are observed after every event)"]
TECHNIQUE = "property-based testing: generated networks; the monitor reconstructs each customer's journey from observed locations and audits the record chain against it"
WALL = {"quick": 150, "thorough": 540}


def nontrivial(a, spec, res):
    return a.get("multi_record_customers", 0) >= 5 and a.get("special_hop_customers", 0) >= 1


def classes(a, spec, res):
    return [k for k in ("blocked_records", "rec_interrupted_service", "rec_renege", "rec_baulk", "rec_rejection") if a.get(k)]


def subchecks(tier):
    prof = common.full_profile("C03", max_nodes=4, horizon=(5.0, 16.0))
    prof.weights.update({"self_loops": 0.6, "jockeying": 0.6, "reneging": 0.4})
    return [system_subcheck("lattice", prof, lambda spec: [Journey()], nontrivial, classes=classes,
                            n={"quick": 9600, "thorough": 50000}, rule="full lattice; observed journey vs record chain"),
            system_subcheck("preempt_combo", common.combo_profile("C03", more_weights={"prio_reroute": 0.8}), lambda spec: [Journey()],
                            lambda a, spec, res: a.get("rec_interrupted_service", 0) >= 2 and a.get("ev_shift_change", 0) >= 2, classes=classes,
                            n={"quick": 3600, "thorough": 30000},
                            rule="pre-emptive priorities (often 're-route') and pre-emptive schedules at the same nodes on grid times: a customer interrupted twice within one instant; same monitor")]
