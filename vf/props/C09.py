"""C09 -- routing and class-change fidelity."""
import itertools
import types

from hypothesis import strategies as st

from ..sysprop import system_subcheck
from ..monitors.routing import Fidelity
from .. import strategies as S
from ..runner import SubCheck
from . import common

ID = "C09"
RULE = ("(a) system: every routing object per class (transition matrices with exact zeros; NetworkRouting mixing Direct / Leave / "
        "Probabilistic / JoinShortestQueue / LoadBalancing / Cycle; ProcessBased; FlexibleProcessBased any/all x random/jsq/lb), "
        "class-change matrices with zeros, destinations incl. infinite-server, multi-server, blocked-holding and PS nodes; "
        "pre-emption (reroute) and reneging/jockeying also route.  The observing node logs every routing decision with the true "
        "population and number in live service of every node at that instant.  Oracle: positive probability; deterministic routers; "
        "k-th Cycle decision = cycle[k mod len]; process routes in order then exit; flexible sets in order; JSQ/LB minimise the true "
        "waiting line / population (tie_break='order' => first minimiser); class change c->c' only if P[c][c'] > 0; priority == "
        "mapping[class] after every event.  (b) unit: random_choice with Hypothesis-supplied uniform variate never returns an "
        "element of probability 0; deterministic routers enumerated exhaustively.  Non-trivial (a): >= 20 decisions incl. >= 1 with "
        ">= 2 possible destinations; distinct by digest.")
ASSUMPTIONS = ["JSQ 'waiting line' = customers present minus customers in live service, recomputed from the lists"]
TECHNIQUE = 'property-based testing: every routing decision compared with the routing spec and true populations; unit property over random_choice; exhaustive enumeration of deterministic routers'
WALL = {"quick": 150, "thorough": 540}


def nontrivial(a, spec, res):
    return a.get("decisions", 0) >= 20 and a.get("multi_choice_decisions", 0) >= 1


def classes(a, spec, res):
    return [k for k in ("jsq_lb_unequal", "zero_prob_alternative", "class_changes_after", "process_steps", "cycle_steps",
                        "rec_interrupted_service", "rec_renege") if a.get(k)]


# ---- unit level: random_choice ------------------------------------------------------------------
@st.composite
def choice_case(draw):
    k = draw(st.integers(1, 6))
    total = draw(st.sampled_from([4, 8, 16]))
    probs = S._dyadic_probs(draw, k, total=total)
    u = draw(st.one_of(st.floats(0.0, 1.0, exclude_max=True, allow_nan=False),
                       st.sampled_from([0.0, 0.25, 0.5, 0.75, 0.125, 0.9999999999999999, 5e-324])))
    return {"probs": probs, "u": u}


def choice_execute(case):
    import ciw.auxiliary as AUX
    probs, u = case["probs"], case["u"]
    arr = list(range(len(probs)))
    fake = types.SimpleNamespace(random=lambda: u)
    real = AUX.random
    AUX.random = fake
    viol = []
    try:
        try:
            got = AUX.random_choice(arr, probs)
        except Exception as e:
            got = None
            viol.append({"property": ID, "clause": "C09.random_choice-raises-on-valid-vector", "site": type(e).__name__,
                         "details": {"probs": probs, "u": u}})
    finally:
        AUX.random = real
    if got is not None:
        if probs[got] == 0.0:
            viol.append({"property": ID, "clause": "C09.random_choice-returns-zero-probability-element", "site": "u=%r" % (u if u == 0.0 else "interior"),
                         "details": {"probs": probs, "u": u, "returned": got}})
        else:
            # exact inverse-CDF position: u lies in the closed cumulative interval of the returned element
            lo = sum(probs[:got])
            hi = lo + probs[got]
            if not (lo <= u <= hi):
                viol.append({"property": ID, "clause": "C09.random_choice-follows-the-weights", "site": "interval",
                             "details": {"probs": probs, "u": u, "returned": got}})
    return {"violations": viol, "nontrivial": any(p == 0.0 for p in probs) and len(probs) >= 2,
            "classes": ["has_zero" if any(p == 0.0 for p in probs) else "no_zero", "u==0" if u == 0.0 else "u>0"]}


# ---- unit level: deterministic routers, exhaustive ----------------------------------------------
def router_cases(tier):
    out = []
    for n in (1, 2, 3):
        ids = list(range(1, n + 1)) + [-1]
        for L in (1, 2, 3):
            for cyc in itertools.product(ids, repeat=L):
                out.append({"kind": "cycle", "n": n, "cycle": list(cyc), "steps": 2 * L + 1})
        for to in range(1, n + 1):
            out.append({"kind": "direct", "n": n, "to": to})
        out.append({"kind": "leave", "n": n})
        for L in (0, 1, 2, 3):
            for route in itertools.product(range(1, n + 1), repeat=L):
                out.append({"kind": "process", "n": n, "route": list(route)})
    return out


def router_execute(case):
    import ciw
    n = case["n"]
    sim = types.SimpleNamespace(nodes=[types.SimpleNamespace(id_number=0)] + [types.SimpleNamespace(id_number=i) for i in range(1, n + 1)]
                                + [types.SimpleNamespace(id_number=-1)])
    sim.transitive_nodes = sim.nodes[1:-1]
    viol = []

    def bad(clause, d):
        viol.append({"property": ID, "clause": "C09." + clause, "site": case["kind"], "details": d})
    ind = ciw.Individual(1)
    if case["kind"] == "cycle":
        r = ciw.routing.Cycle(cycle=list(case["cycle"]))
        r.initialise(sim, sim.nodes[1])
        got = [r.next_node(ind).id_number for _ in range(case["steps"])]
        exp = [case["cycle"][k % len(case["cycle"])] for k in range(case["steps"])]
        if got != exp:
            bad("cycle-router-deterministic", {"cycle": case["cycle"], "got": got})
    elif case["kind"] == "direct":
        r = ciw.routing.Direct(to=case["to"])
        r.initialise(sim, sim.nodes[1])
        got = [r.next_node(ind).id_number for _ in range(3)]
        if got != [case["to"]] * 3:
            bad("direct-router-deterministic", {"to": case["to"], "got": got})
    elif case["kind"] == "leave":
        r = ciw.routing.Leave()
        r.initialise(sim, sim.nodes[1])
        got = [r.next_node(ind).id_number for _ in range(3)]
        if got != [-1] * 3:
            bad("leave-router-deterministic", {"got": got})
    else:
        route = case["route"]
        r = ciw.routing.ProcessBased(lambda i, s: list(route))
        r.initialise(sim)
        r.initialise_individual(ind)
        got = [r.next_node(ind, 1).id_number for _ in range(len(route) + 2)]
        if got != list(route) + [-1, -1]:
            bad("process-route-followed-in-order", {"route": route, "got": got})
    return {"violations": viol, "nontrivial": True, "classes": [case["kind"]]}


def subchecks(tier):
    prof = common.full_profile("C09", max_nodes=4)
    prof.weights.update({"routing_objects": 0.7, "process_routing": 0.5, "flexible_routing": 0.5, "cc_after": 0.4, "ps": 0.2,
                         "inf": 0.3, "capacity": 0.4, "prio_reroute": 0.5, "jockeying": 0.5})
    # re-routed (pre-empted) customers are routed too: JSQ / LB routers at pre-emptive 'reroute' nodes whose destinations have small finite
    # capacities, so that the shortest line is often that of a full node (re-routing ignores capacities)
    wb = {"priorities": 1.0, "prio_preempt": 1.0, "prio_reroute": 1.0, "routing_objects": 1.0, "capacity": 0.8, "self_loops": 0.5, "batching": 0.3,
          "inf": 0.1, "cc_waiting": 0.15, "discipline": 0.1, "schedule": 0.5, "sched_preempt": 1.0, "sched_reroute": 1.0}
    bal = S.Profile(list(wb), weights=wb, required=("priorities", "prio_preempt", "prio_reroute", "routing_objects"), numeric="grid", max_nodes=4,
                    max_classes=3, plans=("max_time",), horizon=(6.0, 16.0), budget=600, load="heavy", caps=(0, 0, 1, 2),
                    router_kinds=("jsq", "lb", "jsq", "prob"), routing_kinds=("network",), min_dests=2, excluded=common.EXCL["C09"])

    def bal_nontrivial(a, spec, res):
        return a.get("reroute_balanced", 0) >= 1

    def bal_classes(a, spec, res):
        return [k for k in ("reroute_balanced", "reroute_shortest_is_full", "jsq_lb_unequal") if a.get(k)]
    return [
        system_subcheck("reroute_balancing", bal, lambda spec: [Fidelity(spec)], bal_nontrivial, classes=bal_classes, obs=True,
                        n={"quick": 3600, "thorough": 20000},
                        rule="JSQ / LB decisions for re-routed customers (pre-emptive priorities and 're-route' schedules incl. zero-server shifts) with small finite capacities at the destinations; "
                             "non-trivial = >= 1 re-routing decision taken by a JSQ / LB router"),
        system_subcheck("reroute_classchange", common.region_profile("C09", more_weights={"sched_reroute": 1.0, "cc_after": 1.0, "priorities": 0.5, "routing_objects": 0.0},
                                                                   required=("schedule", "capacity", "cc_after"), max_classes=3),
                        lambda spec: [Fidelity(spec)], lambda a, spec, res: a.get("class_changes_after", 0) >= 1 and a.get("rec_interrupted_service", 0) >= 1,
                        classes=classes, obs=True, n={"quick": 3600, "thorough": 20000},
                        rule="'re-route' schedules x blocking x class change after service: a customer that has changed class and is blocked when its shift ends is "
                             "re-routed by the routing of its current class (transition matrices with exact zeros)"),
        system_subcheck("system", prof, lambda spec: [Fidelity(spec)], nontrivial, classes=classes, obs=True,
                        n={"quick": 7200, "thorough": 40000}, rule="routing decisions vs spec with true populations"),
        SubCheck("random_choice", choice_execute, strategy=choice_case(), n={"quick": 48000, "thorough": 200000}, kind="unit",
                 rule="dyadic probability vectors (1-6 entries, many zeros) x uniform variate incl. 0.0 and boundary values; non-trivial = vector has a zero",
                 is_spec=False),
        SubCheck("deterministic_routers", router_execute, cases=router_cases, kind="unit", exhaustive=True,
                 rule="all Cycle lists up to length 3, Direct, Leave and ProcessBased routes up to length 3 on <= 3 nodes", is_spec=False),
    ]
