"""C18 -- deadlock detection is sound and complete; times to deadlock are exact."""
import types

from hypothesis import strategies as st

from .. import observe as O
from .. import strategies as S
from ..runner import SubCheck
from ..sysprop import system_subcheck
from . import common

ID = "C18"
RULE = ("(a) system: restricted networks (integer servers 1-3, queue capacities 0-2, any topology with self-loops, several classes, "
        "non-pre-emptive priorities, batches, all routing objects) run with simulate_until_deadlock, StateDigraph and a blocking tracker.  "
        "Independent oracle after every event: greatest fixpoint over node sets -- start from the nodes all of whose servers hold blocked "
        "customers, repeatedly drop a node having a server whose customer's destination lies outside the set; deadlock <=> non-empty.  "
        "The run must continue while the oracle is false and stop at the first event after which it is true; times_to_deadlock[s] must "
        "equal deadlock instant - first visit of s from the monitor's own log.  Runs that exhaust the event budget count only for the "
        "'no false positive' half.  (b) unit: StateDigraph.detect_deadlock on wait-for digraphs built from generated server "
        "configurations vs the same fixpoint.  Non-trivial (a): deadlock reached after >= 1 resolved blockage; distinct by digest.")
ASSUMPTIONS = ["deadlock is defined structurally (the property's own definition), not by waiting"]
TECHNIQUE = 'property-based testing: simulate_until_deadlock and detect_deadlock (asked in every reached state) against an independent structural fixpoint oracle; two-phase runs, deadlocks at time zero, 10-12 nodes, long runs of thousands of events (storyboard generator), pre-emption; unit property of detect_deadlock on generated server configurations'
WALL = {"quick": 150, "thorough": 540}

ALLOWED = ["capacity", "priorities", "batching", "self_loops", "routing_objects", "process_routing", "discipline", "cc_after", "zero_service",
           "server_priority"]


def oracle(Q):
    """Set of node ids in the greatest 'mutually blocked' set (empty = no deadlock)."""
    from math import isinf
    info = {}
    for nd in Q.transitive_nodes:
        if O.is_ps(nd) or isinf(nd.c) or nd.slotted or len(nd.servers) == 0:
            continue
        dests = []
        ok = True
        for s in nd.servers:
            c = s.cust
            if c is False or c is None or not c.is_blocked:
                ok = False
                break
            dests.append(c.destination)
        if ok:
            info[nd.id_number] = dests
    S_ = set(info)
    changed = True
    while changed:
        changed = False
        for n in list(S_):
            if any(d not in S_ for d in info[n]):
                S_.discard(n)
                changed = True
    return S_


class DeadlockOracle(O.Monitor):
    name = "deadlock"
    P = "C18"

    def start(self, Q):
        self.prev = set()
        self.reported = False
        self.first = {Q.statetracker.hash_state(): 0.0}
        self.activity = {"deadlocks": 0, "resolved_blockages": 0, "knot_ge_2": 0, "multi_server_in_knot": 0, "self_deadlock": 0, "blocks": 0}
        self.blocked_prev = set()
        self.last_t = None
        self.knot = set()
        self.cur_call = None
        self.events_in_call = 0
        self.formed_in_phase1 = False
        self.detector_reported = False

    def before(self, Q, node, etype):
        k = getattr(Q, "call_index", 0)
        if k != self.cur_call:
            self.cur_call = k
            self.events_in_call = 0
        # a deadlock that formed during an earlier simulate_until_max_time phase must stop the run at the first event after resuming
        if Q.cur_step[0] == "until_deadlock" and self.prev and self.events_in_call >= 1 and not self.reported:
            self.reported = True
            Q.report(self.P, "C18.stops-at-first-deadlock", etype, {"deadlocked_nodes": sorted(self.prev), "since": O._num(self.last_t),
                                                                    "formed_in_earlier_phase": bool(self.formed_in_phase1)})

    def after(self, Q, node, etype, nxt):
        t = Q.current_time
        self.last_t = t
        self.events_in_call += 1
        was = bool(self.prev)
        self.prev = oracle(Q)
        # the detector asked in every reached state (it is read-only): it reports a deadlock exactly when one exists
        said = bool(Q.deadlock_detector.detect_deadlock())
        if said != bool(self.prev) and not self.detector_reported:
            self.detector_reported = True
            Q.report(self.P, "C18.detector-never-reports-deadlock-without-one" if said else "C18.detector-reports-every-deadlock", etype,
                     {"detector": said, "deadlocked_nodes": sorted(self.prev), "clock": O._num(t)})
        if Q.cur_step[0] != "until_deadlock":
            if self.prev and not was:
                self.formed_in_phase1 = True
                self.activity["deadlock_formed_before_resume"] = 1
        st_ = Q.statetracker.hash_state()
        if Q.cur_step[0] == "until_deadlock" and st_ not in self.first:
            self.first[st_] = t
        blocked = set()
        for nd in Q.transitive_nodes:
            for i in O.customers(nd):
                if i.is_blocked:
                    blocked.add((i.id_number, nd.id_number))
        self.activity["blocks"] += len(blocked - self.blocked_prev)
        self.activity["resolved_blockages"] += len(self.blocked_prev - blocked)
        self.blocked_prev = blocked

    def after_call(self, Q, k, step, completed):
        rep = lambda clause, d: Q.report(self.P, "C18." + clause, "return", d)
        if step[0] != "until_deadlock":
            return
        if not self.prev:
            rep("no-deadlock-reported-without-a-deadlock", {"clock": O._num(self.last_t)})
            return
        self.activity["deadlocks"] += 1
        if len(self.prev) >= 2:
            self.activity["knot_ge_2"] += 1
        if any(len(Q.nodes[n].servers) >= 2 for n in self.prev):
            self.activity["multi_server_in_knot"] += 1
        if len(self.prev) == 1:
            self.activity["self_deadlock"] += 1
        if self.last_t == 0:
            self.activity["deadlock_at_zero"] = 1
        td = self.last_t
        got = Q.times_to_deadlock
        if set(got) != set(self.first):
            rep("times-to-deadlock-cover-visited-states", {"reported": len(got), "visited": len(self.first)})
        else:
            for s, v in got.items():
                exp = td - self.first[s]
                if abs(float(v) - float(exp)) > 1e-9 or v < 0:
                    rep("time-to-deadlock-is-deadlock-instant-minus-first-visit", {"state": repr(s)[:120], "reported": O._num(v), "expected": O._num(exp)})
                    break


def nontrivial(a, spec, res):
    return a.get("deadlocks", 0) >= 1 and a.get("resolved_blockages", 0) >= 1


def classes(a, spec, res):
    out = [k for k in ("deadlocks", "knot_ge_2", "multi_server_in_knot", "self_deadlock", "deadlock_formed_before_resume") if a.get(k)]
    if spec["seed"] % 5 < 2:
        out.append("two_phase_run")
    if res.budget_hit:
        out.append("no_deadlock_within_budget")
    return out


def post_filter(spec):
    spec = dict(spec)
    spec["deadlock"] = True
    spec["plan"] = {"kind": "until_deadlock"}
    if spec["seed"] % 5 < 2:
        # two-phase run: simulate_until_max_time first (a knot may already form there), then simulate_until_deadlock
        spec["plan"]["T_before"] = [1.5, 2.75, 4.0, 6.5][spec["seed"] % 4]
    if not spec.get("tracker") or spec["tracker"]["kind"] not in ("NaiveBlocking", "MatrixBlocking", "NodePopulation"):
        spec["tracker"] = {"kind": ["NaiveBlocking", "MatrixBlocking"][spec["seed"] % 2]}
    return spec


# ---- unit: detect_deadlock on generated configurations --------------------------------------------
@st.composite
def config_case(draw):
    n = draw(st.integers(1, 4))
    nodes = []
    for i in range(n):
        c = draw(st.integers(1, 3))
        servers = []
        for _ in range(c):
            state = draw(st.sampled_from(["free", "busy", "blocked", "blocked", "blocked"]))
            servers.append(draw(st.integers(1, n)) if state == "blocked" else state)
        nodes.append(servers)
    return {"nodes": nodes}


def config_execute(case):
    import ciw
    nodes = case["nodes"]
    det = ciw.deadlock.StateDigraph()
    names = {}
    for i, servers in enumerate(nodes):
        for j, _ in enumerate(servers):
            names[(i, j)] = "Server %d at Node %d" % (j + 1, i + 1)
            det.statedigraph.add_node(names[(i, j)])
    for i, servers in enumerate(nodes):
        for j, s in enumerate(servers):
            if isinstance(s, int):
                for k, _ in enumerate(nodes[s - 1]):
                    det.statedigraph.add_edge(names[(i, j)], names[(s - 1, k)])
    got = det.detect_deadlock()
    info = {i + 1: list(sv) for i, sv in enumerate(nodes) if all(isinstance(s, int) for s in sv)}
    S_ = set(info)
    changed = True
    while changed:
        changed = False
        for x in list(S_):
            if any(d not in S_ for d in info[x]):
                S_.discard(x)
                changed = True
    exp = bool(S_)
    viol = []
    if got != exp:
        viol.append({"property": ID, "clause": "C18.detect_deadlock-" + ("misses-a-knot" if exp else "reports-a-false-knot"), "site": "unit",
                     "details": {"nodes": nodes, "detected": got, "expected": exp}})
    return {"violations": viol, "nontrivial": any(isinstance(s, int) for sv in nodes for s in sv), "classes": ["deadlock" if exp else "no_deadlock"]}


@st.composite
def long_run_case(draw):
    nf = draw(st.integers(1, 3))
    hub_c = draw(st.integers(2, 3))
    fb = draw(st.sampled_from([0.02, 0.04, 0.06]))
    n = nf + 1
    rows = [[0.0] * nf + [draw(st.sampled_from([0.9, 1.0]))] for _ in range(nf)] + [[fb] * nf + [draw(st.sampled_from([0.0, 0.0, 0.02]))]]
    cls = {"name": "C0", "priority": 0, "arrival": [["exp", draw(st.sampled_from([0.8, 1.0, 1.2]))] for _ in range(nf)] + [None],
           "service": [["exp", draw(st.sampled_from([2.0, 3.0]))] for _ in range(nf)] + [["exp", draw(st.sampled_from([1.0, 1.2, 1.6])) * hub_c / 2.0]],
           "routing": {"kind": "matrix", "rows": rows}}
    nodes = [{"cap": draw(st.sampled_from([1, 2, 3])), "servers": {"kind": "int", "c": draw(st.sampled_from([1, 1, 2]))}} for _ in range(nf)] \
        + [{"cap": 0, "servers": {"kind": "int", "c": hub_c}}]
    budget = 12000 if S._thorough() else 6000
    return {"classes": [cls], "nodes": nodes, "plan": {"kind": "until_deadlock"}, "deadlock": True, "seed": draw(st.integers(0, 10000)),
            "event_budget": budget, "tracker": {"kind": draw(st.sampled_from(["NaiveBlocking", "MatrixBlocking"]))}}


def subchecks(tier):
    w = {"capacity": 1.0, "priorities": 0.3, "batching": 0.3, "self_loops": 0.7, "routing_objects": 0.4, "process_routing": 0.3, "discipline": 0.2,
         "cc_after": 0.15, "zero_service": 0.2, "server_priority": 0.1}
    prof = S.Profile(ALLOWED, weights=w, required=("capacity",), numeric="mixed", max_nodes=3, max_classes=2, plans=("until_deadlock",),
                     horizon=(5.0, 10.0), budget=700, caps=(0, 0, 1, 1, 2), load="heavy", stay=0.6)
    # a deadlock at clock time exactly 0: first customer at t = 0, zero service time, no waiting room, routed back to its own node
    wz = dict(w, zero_service=1.0, self_loops=1.0, batching=0.5)
    instant = S.Profile(ALLOWED, weights=wz, required=("capacity", "zero_service", "self_loops"), numeric="grid", max_nodes=2, max_classes=2,
                        plans=("until_deadlock",), horizon=(5.0, 10.0), budget=400, caps=(0, 0, 0, 1), load="heavy", stay=0.8, zero_p=0.45, zero_first=0.6, max_c=2)
    # ten and more nodes: vertex labels of the wait-for digraph such as 'Server 1 at Node 1' and 'Server 1 at Node 10' differ only by a suffix
    wm = {"capacity": 1.0, "self_loops": 0.5, "priorities": 0.2, "discipline": 0.2, "routing_objects": 0.3}
    many = S.Profile(list(wm), weights=wm, required=("capacity",), numeric="mixed", min_nodes=10, max_nodes=12, max_classes=2, plans=("until_deadlock",),
                     horizon=(5.0, 10.0), budget=900, caps=(0, 0, 1), load="heavy", stay=0.7, max_c=2)
    # long runs before the first deadlock (thousands of service completions): see long_run_case; and long runs with much feedback
    wl = {"capacity": 1.0, "self_loops": 0.7, "priorities": 0.2, "routing_objects": 0.2, "batching": 0.2}
    longfb = S.Profile(list(wl), weights=wl, required=("capacity",), numeric="cont", min_nodes=2, max_nodes=3, max_classes=2, plans=("until_deadlock",),
                       horizon=(5.0, 10.0), budget=9000, caps=(1, 2, 2, 3), load="heavy", stay=0.85, max_c=3)
    wu = dict(w, priorities=1.0, prio_preempt=1.0, cc_waiting=1.0)
    upgrade = S.Profile(ALLOWED + ["prio_preempt", "cc_waiting"], weights=wu, required=("capacity", "priorities", "prio_preempt", "cc_waiting"), numeric="mixed",
                        max_nodes=3, max_classes=3, plans=("until_deadlock",), horizon=(5.0, 10.0), budget=700, caps=(0, 0, 1, 1, 2), load="heavy", stay=0.6)
    return [
        system_subcheck("preempt_upgrade", upgrade, lambda spec: [DeadlockOracle()], nontrivial, classes=classes, spec_filter=post_filter,
                        n={"quick": 3000, "thorough": 30000},
                        rule="pre-emptive priorities (resume / restart / resample) and priority-raising class changes while waiting in blocking networks: servers change "
                             "hands without anybody leaving the node; same oracle"),
        system_subcheck("long_feedback", longfb, lambda spec: [DeadlockOracle()], lambda a, spec, res: a.get("events", 0) >= 2500 and a.get("resolved_blockages", 0) >= 20,
                        classes=classes, spec_filter=lambda spec: dict(post_filter(spec), event_budget=9000), n={"quick": 64, "thorough": 800},
                        rule="2-3 multi-server nodes with waiting room and much feedback: the same customers are blocked several times, on different servers, "
                             "over thousands of events; same oracle"),
        system_subcheck("long_run", None, lambda spec: [DeadlockOracle()], lambda a, spec, res: a.get("events", 0) >= 2500 and a.get("resolved_blockages", 0) >= 20,
                        classes=classes, strategy=long_run_case(), n={"quick": 64, "thorough": 1600},
                        rule="feeder nodes with waiting room into a multi-server hub without waiting room, a few per cent feedback: blocks all the time, deadlocks "
                             "rarely - thousands of events (>= 1000 service completions) before the first deadlock; oracle and detector query after every event"),
        system_subcheck("instant_deadlock", instant, lambda spec: [DeadlockOracle()], lambda a, spec, res: a.get("deadlocks", 0) >= 1,
                        classes=lambda a, spec, res: classes(a, spec, res) + (["deadlock_at_time_zero"] if a.get("deadlock_at_zero") else []),
                        spec_filter=post_filter, n={"quick": 2400, "thorough": 15000},
                        rule="first arrivals at t = 0, zero service times, no waiting room, self-loops: deadlocks at clock time exactly 0; same oracle"),
        system_subcheck("many_nodes", many, lambda spec: [DeadlockOracle()], nontrivial, classes=classes, spec_filter=post_filter,
                        n={"quick": 1800, "thorough": 12000}, rule="10-12 nodes (vertex names of nodes 1 and 10-12 share prefixes); same oracle"),
        system_subcheck("system", prof, lambda spec: [DeadlockOracle()], nontrivial, classes=classes, spec_filter=post_filter,
                        n={"quick": 7200, "thorough": 40000}, rule="simulate_until_deadlock vs structural fixpoint oracle after every event"),
        SubCheck("detect_deadlock", config_execute, strategy=config_case(), n={"quick": 18000, "thorough": 80000}, kind="unit", is_spec=False,
                 rule="server configurations (1-4 nodes, 1-3 servers each: free / busy / blocked to node d) -> wait-for digraph -> detect_deadlock vs fixpoint; non-trivial = some server blocked"),
    ]
