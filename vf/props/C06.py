"""C06 -- finite capacity: node/system capacity never exceeded, rejection iff full."""
from ..sysprop import system_subcheck
from ..monitors.capacity import Capacity
from . import common

ID = "C06"
RULE = ("NetSpecs with queue capacities from {0,1,2,3,inf}, system capacity 1..6, fixed (0..3 / infinite) and scheduled servers, "
        "batches, baulking, blocking, priorities, reneging; reroute options excluded (documented exception).  The observing arrival "
        "node logs, for every created customer (each batch member), node and system population recomputed from the lists just before "
        "admission and the outcome.  Oracle: rejected <=> population >= queue capacity + servers (from the spec) or system population "
        ">= system capacity; rejection leaves exactly one rejection record with the population seen and arrival == exit == now; "
        "after every event populations are within capacity.  Non-trivial: >= 1 rejection and >= 1 admission at population "
        "capacity-1; distinct by spec digest.")
ASSUMPTIONS = ["the iff clause is asserted for fixed-server nodes; for scheduled nodes only the upper bound queue capacity + max servers (S1)"]
TECHNIQUE = 'property-based testing: generated capacitated networks; admission decisions observed per created customer compared with capacity recomputed from the spec'
WALL = {"quick": 150, "thorough": 540}


def nontrivial(a, spec, res):
    return a.get("rejections", 0) >= 1 and a.get("admitted_at_capacity_minus_1", 0) >= 1


def classes(a, spec, res):
    return [k for k in ("node_full_rejections", "system_full_rejections", "cap0_rejections", "rec_baulk", "blocked_records") if a.get(k)]


def subchecks(tier):
    allowed = [f for f in common.FULL if f not in ("prio_reroute", "sched_reroute")]
    prof = common.full_profile("C06", allowed=allowed, load="heavy")
    prof.weights.update({"capacity": 0.9, "system_capacity": 0.35, "batching": 0.4, "baulking": 0.25, "zero_servers": 0.15, "ps": 0.05})
    # batches arriving at nodes with 're-route' pre-emption: an admitted batch member can push somebody else out of the node within the same arrival
    # event; re-routed customers overfill other nodes.  In half of the cases the system capacity equals the sum of the node capacities.
    from .. import strategies as S
    wb = {"capacity": 1.0, "batching": 1.0, "priorities": 1.0, "prio_preempt": 1.0, "prio_reroute": 1.0, "system_capacity": 0.5, "baulking": 0.3,
          "self_loops": 0.3, "routing_objects": 0.3, "discipline": 0.2, "zero_service": 0.2}
    br = S.Profile(list(wb), weights=wb, required=("capacity", "batching", "priorities", "prio_preempt", "prio_reroute"), numeric="grid", max_nodes=3,
                   max_classes=3, plans=("max_time",), horizon=(6.0, 16.0), budget=600, load="heavy", caps=(0, 1, 1, 2), max_c=2)

    def tight(spec):
        import copy
        spec = copy.deepcopy(spec)
        if spec["seed"] % 2 == 0 and all(nd["servers"]["kind"] == "int" for nd in spec["nodes"]):
            for nd in spec["nodes"]:
                if nd.get("cap", "inf") == "inf":
                    nd["cap"] = 1
            spec["system_capacity"] = sum(nd["servers"]["c"] + nd["cap"] for nd in spec["nodes"]) + (1 if spec["seed"] % 6 == 0 else 0)
        return spec
    batch_reroute = system_subcheck("batch_reroute", br, lambda spec: [Capacity(spec, overfull_ok=True)],
                                    lambda a, spec, res: a.get("rejections", 0) >= 1 and a.get("obs_preempt", 0) >= 1,
                                    classes=lambda a, spec, res: classes(a, spec, res) + [k for k in ("overfull_nodes_seen", "system_full_rejections") if a.get(k)],
                                    obs=True, spec_filter=tight, n={"quick": 3600, "thorough": 20000},
                                    rule="batch arrivals at capacitated nodes with 're-route' pre-emption (re-routed customers may overfill nodes, as documented); "
                                         "system capacity often exactly the sum of the node capacities; admission clauses only")
    return [batch_reroute, system_subcheck("lattice", prof, lambda spec: [Capacity(spec)], nontrivial, classes=classes, obs=True,
                            n={"quick": 9600, "thorough": 50000}, rule="capacitated lattice; admission log vs spec capacity"),
            system_subcheck("sched_blocked", common.region_profile("C06", excluded=common.EXCL["C14"] + ("jockey_capacity",)), lambda spec: [Capacity(spec)],
                            lambda a, spec, res: a.get("rejections", 0) >= 1 and a.get("rec_interrupted_service", 0) >= 1, classes=classes, obs=True,
                            n={"quick": 4800, "thorough": 30000},
                            rule="pre-emptive schedules x blocking region: rejections at scheduled nodes checked with the clauses that hold under every reading of their capacity")]
