"""C19 -- processor sharing: service rate shared correctly and work conserved."""
import copy
from collections import defaultdict
from fractions import Fraction

from hypothesis import strategies as st

from .. import observe as O
from .. import strategies as S
from ..runner import SubCheck
from ..sysprop import system_subcheck
from . import common

ID = "C19"
RULE = ("(a) fluid reference: networks containing PS nodes (sharing capacity 1-3 or unlimited, threshold 1-3) alone or fed by / feeding "
        "ordinary nodes, no finite queues, several classes, continuous distributions; service requirements logged.  A separate "
        "event-driven fluid model in exact rationals (each sharing customer progresses at rate min(1, R/k); at most `capacity` share, "
        "the others wait first-come-first-served; departure when received work == requirement) is driven by the observed arrivals to "
        "the node and the logged requirements and predicts every service start and departure; compared with the records (1e-9).  "
        "Monitor: sharers <= capacity and every waiting customer arrived after every sharer.  (a') tie-rich grid inputs (coincident "
        "arrivals / completions, zero-length jobs, batches): the monitor integrates per customer the work received at rate min(1, R/k) "
        "over the observed sharing sets; at departure it must equal the logged requirement and nobody stays beyond it.  (b) metamorphic: an unlimited PS node "
        "and a one-server FIFO ciw.Node fed with the same arrivals and per-customer requirements empty at the same instants.  "
        "Non-trivial (a): >= 3 customers overlapping in service at a PS node; distinct by digest.")
ASSUMPTIONS = ["tie-free inputs (continuous distributions); tolerance 1e-9 relative on predicted dates",
               "the threshold R of a capacitated PS node may be fractional (rate min(1, R/k)): the code accepts it although the documentation speaks of R processors"]
TECHNIQUE = 'property-based testing against reference models: exact-rational fluid PS model (tie-free), tie-robust integration of received work (also at sharing capacities of 250-300 and at clock values of 2^20-2^30), and metamorphic PS-vs-FIFO busy periods'
WALL = {"quick": 150, "thorough": 540}

ALLOWED = ["ps", "inf", "priorities", "batching", "routing_objects", "self_loops", "cc_after", "process_routing", "discipline"]


class PSMonitor(O.Monitor):
    name = "ps"
    P = "C19"

    def __init__(self, spec):
        self.spec = spec

    def start(self, Q):
        self.nodes = [nd for nd in Q.transitive_nodes if O.is_ps(nd)]
        self.activity = {"max_sharing": 0, "capacity_bound_waiting": 0, "threshold_active": 0, "ps_visits_checked": 0}

    def after(self, Q, node, etype, nxt):
        for nd in self.nodes:
            cs = O.customers(nd)
            sh = [i for i in cs if getattr(i, "with_server", False)]
            wt = [i for i in cs if not getattr(i, "with_server", False)]
            self.activity["max_sharing"] = max(self.activity["max_sharing"], len(sh))
            cap = nd.ps_capacity
            if len(sh) > cap:
                Q.report(self.P, "C19.at-most-capacity-share-the-service", etype, {"node": nd.id_number, "sharing": len(sh), "capacity": cap})
            if wt:
                self.activity["capacity_bound_waiting"] += 1
                if len(sh) < cap:
                    Q.report(self.P, "C19.nobody-waits-while-sharing-capacity-is-free", etype, {"node": nd.id_number, "sharing": len(sh), "capacity": cap,
                                                                                             "waiting": [i.id_number for i in wt][:5]})
                if sh and max(i.arrival_date for i in sh) > min(i.arrival_date for i in wt):
                    Q.report(self.P, "C19.waiting-customers-are-the-latest-arrivals", etype,
                             {"node": nd.id_number, "sharing": sorted((O._num(i.arrival_date), i.id_number) for i in sh),
                              "waiting": sorted((O._num(i.arrival_date), i.id_number) for i in wt)[:5]})
            if len(sh) > self.spec["nodes"][nd.id_number - 1].get("ps_threshold", 1) > 1:
                self.activity["threshold_active"] += 1

    def finish(self, Q, res):
        if res.aborted or res.budget_hit or not res.calls_completed:
            return
        samples = defaultdict(list)
        for tag, t, ind, v in Q.built.samples:
            if tag[0] == "srv":
                samples[(ind, tag[1])].append(v)
        inds = list(Q.nodes[-1].all_individuals)
        for nd in Q.transitive_nodes:
            inds.extend(O.customers(nd))
        tend = Q.plan_steps[-1][1]       # every event strictly before the horizon has been executed
        for nd in self.nodes:
            nid = nd.id_number
            visits = []      # (arrival, id, k-th visit, observed start, observed end)
            for ind in inds:
                k = 0
                for r in ind.data_records:
                    if r.node == nid and r.record_type == "service":
                        visits.append((r.arrival_date, ind.id_number, k, r.service_start_date, r.service_end_date))
                        k += 1
                if ind.node == nid and any(x is ind for x in O.customers(nd)):
                    st_ = ind.service_start_date if getattr(ind, "with_server", False) else None
                    visits.append((ind.arrival_date, ind.id_number, k, st_, None))
            visits.sort(key=lambda x: (x[0], x[1]))
            pred = fluid(visits, samples, nid, nd.ps_capacity, Fraction(self.spec["nodes"][nid - 1].get("ps_threshold", 1)), Fraction(tend))
            for v_, p in zip(visits, pred):
                self.activity["ps_visits_checked"] += 1
                a, cid, k, s_obs, e_obs = v_
                s_pred, e_pred = p
                bad = None
                if any(x is not None and abs(float(x) - float(tend)) < 1e-7 for x in (s_pred, e_pred, s_obs, e_obs)):
                    continue        # within rounding of the horizon: executed-or-not is not decidable from rationals
                if (s_obs is None) != (s_pred is None):
                    bad = "service-start"
                elif s_obs is not None and abs(float(s_obs) - float(s_pred)) > 1e-9 * max(1.0, abs(float(s_obs))):
                    bad = "service-start"
                elif (e_obs is None) != (e_pred is None):
                    bad = "departure"
                elif e_obs is not None and abs(float(e_obs) - float(e_pred)) > 1e-9 * max(1.0, abs(float(e_obs))):
                    bad = "departure"
                if bad:
                    Q.report(self.P, "C19.fluid-model-predicts-" + bad, "audit",
                             {"node": nid, "customer": cid, "arrival": O._num(a), "observed": [None if s_obs is None else O._num(s_obs), None if e_obs is None else O._num(e_obs)],
                              "predicted": [None if s_pred is None else float(s_pred), None if e_pred is None else float(e_pred)],
                              "capacity": repr(nd.ps_capacity), "threshold": nd.ps_threshold})
                    break


class PSWork(O.Monitor):
    """Tie-robust oracle: integrates, per customer, the work received at rate min(1, R/k) over the observed sharing sets
    (k = customers sharing between two events).  A customer leaves exactly when received == requirement."""
    name = "pswork"
    P = "C19"

    def __init__(self, spec, tol=1e-9):
        self.spec = spec
        self.tol = tol          # absolute slack on received work (runs at very large clock values: one ulp of the clock is not negligible)

    def start(self, Q):
        self.nodes = [nd for nd in Q.transitive_nodes if O.is_ps(nd)]
        self.k = 0
        self.req = {}          # (ind id, node, start time) -> requirement
        self.work = {}         # (id(ind), node) -> [node, start, received, ind]
        self.prev_t = 0.0
        self.activity = {"ps_departures_checked": 0, "max_sharing": 0, "ties_at_ps": 0, "capacity_bound_waiting": 0}
        self.prev_event_t = None

    def after(self, Q, node, etype, nxt):
        t = Q.current_time
        log = Q.built.samples
        while self.k < len(log):
            tag, ts, ind, v = log[self.k]
            self.k += 1
            if tag[0] == "srv":
                self.req[(ind, tag[1], ts)] = v
        dt = float(t) - float(self.prev_t)
        rep = lambda clause, d: Q.report(self.P, "C19." + clause, etype, d)
        if self.prev_event_t == t and getattr(node, "id_number", 0) in [n.id_number for n in self.nodes]:
            self.activity["ties_at_ps"] += 1
        self.prev_event_t = t
        for nd in self.nodes:
            nid = nd.id_number
            R = self.spec["nodes"][nid - 1].get("ps_threshold", 1)      # from the configuration, not from the node object
            mine = [w for w in self.work.values() if w[0] == nid]
            kshare = len(mine)
            rate = 1.0 if kshare <= R else R / float(kshare)
            for w in mine:
                w[2] += dt * rate
            # who shares now?
            now_sh = {(id(i), nid): i for i in O.customers(nd) if getattr(i, "with_server", False)}
            self.activity["max_sharing"] = max(self.activity["max_sharing"], len(now_sh))
            if len(O.customers(nd)) > len(now_sh):
                self.activity["capacity_bound_waiting"] += 1
            # sharing capacity: at most c customers share, and nobody waits while a sharing place is free
            sv = self.spec["nodes"][nid - 1]["servers"]
            if sv["kind"] == "int":
                if len(now_sh) > sv["c"]:
                    rep("at-most-capacity-customers-share", {"node": nid, "sharing": len(now_sh), "capacity": sv["c"]})
                elif len(now_sh) < sv["c"] and len(O.customers(nd)) > len(now_sh):
                    rep("nobody-waits-while-a-sharing-place-is-free", {"node": nid, "sharing": len(now_sh), "present": len(O.customers(nd)), "capacity": sv["c"]})
            for key in [k_ for k_, w in self.work.items() if w[0] == nid]:
                w = self.work[key]
                ind = w[3]
                still = key in now_sh and now_sh[key].service_start_date == w[1]
                if still:
                    r = self.req.get((ind.id_number, nid, w[1]))
                    if r is not None and w[2] > r + 1e-9 * max(1.0, r) + self.tol:
                        rep("customer-leaves-when-received-work-equals-requirement", {"node": nid, "customer": ind.id_number, "received": w[2],
                                                                                       "requirement": r, "still_present_at": O._num(t)})
                        del self.work[key]
                    continue
                r = self.req.get((ind.id_number, nid, w[1]))
                if r is not None:
                    self.activity["ps_departures_checked"] += 1
                    if abs(w[2] - r) > 1e-9 * max(1.0, r) + self.tol:
                        rep("received-work-equals-requirement-at-departure", {"node": nid, "customer": ind.id_number, "received": w[2],
                                                                              "requirement": r, "left_at": O._num(t), "started": O._num(w[1])})
                del self.work[key]
            for key, ind in now_sh.items():
                if key not in self.work:
                    self.work[key] = [nid, ind.service_start_date, 0.0, ind]
        self.prev_t = t


def fluid(visits, samples, nid, cap, R, tend):
    """Event-driven fluid PS in exact rationals.  visits sorted by arrival.  Returns [(start|None, end|None)] up to time tend."""
    n = len(visits)
    pred = [[None, None] for _ in range(n)]
    arr = [Fraction(v[0]) for v in visits]
    S_ = {}            # index -> remaining work
    W = []             # waiting indices FCFS
    now = Fraction(0)
    nxt = 0

    def req(i):
        lst = samples.get((visits[i][1], nid), [])
        k = visits[i][2]
        return Fraction(lst[k]) if k < len(lst) else None

    def admit(i):
        r = req(i)
        if r is None:
            return False
        pred[i][0] = now
        S_[i] = r
        return True
    while True:
        k = len(S_)
        rate = Fraction(1) if k <= R else Fraction(R, k)
        t_dep, i_dep = None, None
        for i, rem in S_.items():
            t = now + rem / rate
            if t_dep is None or t < t_dep:
                t_dep, i_dep = t, i
        t_arr = arr[nxt] if nxt < n else None
        if t_dep is None and t_arr is None:
            break
        if t_arr is not None and (t_dep is None or t_arr <= t_dep):
            t = t_arr
            event = "arr"
        else:
            t = t_dep
            event = "dep"
        if t > tend:
            break
        dt = t - now
        for i in S_:
            S_[i] -= dt * rate
        now = t
        if event == "arr":
            i = nxt
            nxt += 1
            if len(S_) < cap:
                if not admit(i):
                    break
            else:
                W.append(i)
        else:
            pred[i_dep][1] = now
            del S_[i_dep]
            if W:
                j = W.pop(0)
                if not admit(j):
                    break
    return pred


def nontrivial(a, spec, res):
    return a.get("max_sharing", 0) >= 3


def classes(a, spec, res):
    return [k for k in ("capacity_bound_waiting", "threshold_active") if a.get(k)] + (["sharing>=3"] if a.get("max_sharing", 0) >= 3 else [])


# ---- metamorphic: unlimited PS vs single-server FIFO ------------------------------------------------
@st.composite
def busy_case(draw):
    table = draw(st.lists(st.sampled_from([0.1, 0.25, 0.4, 0.7, 1.0, 1.6, 2.3]), min_size=3, max_size=7))
    rate = draw(st.sampled_from([0.5, 0.8, 1.2, 2.0]))
    # tie-free arrivals only: when the node empties at the very instant of the next arrival the two disciplines order
    # the coincident events differently (rounding), which is outside the property's proviso
    arrival = draw(st.sampled_from([["exp", rate], ["uni", 0.1 / rate, 1.9 / rate], ["gamma", 2.0, 0.5 / rate], ["erlang", 2.0 * rate, 2]]))
    return {"classes": [{"name": "C0", "priority": 0, "arrival": [arrival], "service": [["keyed", table]],
                         "routing": {"kind": "matrix", "rows": [[0.0]]}}],
            "nodes": [{"servers": {"kind": "inf"}, "ps": True, "cap": "inf"}], "seed": draw(st.integers(0, 10 ** 6)),
            "plan": {"kind": "max_time", "T": [draw(st.integers(20, 60)) / 4.0 + 0.0137]}, "event_budget": 1500}


def _empties(Q):
    nd = Q.transitive_nodes[0]
    ev = []
    for ind in list(Q.nodes[-1].all_individuals) + O.customers(nd):
        for r in ind.data_records:
            ev.append((r.arrival_date, 1))
            ev.append((r.exit_date, -1))
        if ind.node == 1 and any(x is ind for x in O.customers(nd)):
            ev.append((ind.arrival_date, 1))
    ev.sort(key=lambda x: (x[0], -x[1]))
    out, n = [], 0
    for t, d in ev:
        n += d
        if n == 0 and d == -1:
            out.append(t)
    return out


def busy_execute(case):
    ps = copy.deepcopy(case)
    ff = copy.deepcopy(case)
    ff["nodes"] = [{"servers": {"kind": "int", "c": 1}, "cap": "inf"}]
    ra, rb = O.run_case(ps, []), O.run_case(ff, [])
    out = {"violations": [], "nontrivial": False, "classes": [], "aborted": ra.aborted or rb.aborted, "budget_hit": ra.budget_hit or rb.budget_hit, "events": ra.n_events + rb.n_events}
    if out["aborted"] or out["budget_hit"]:
        return out
    A, B_ = _empties(ra.Q), _empties(rb.Q)
    ok = len(A) == len(B_) and all(abs(x - y) <= 1e-9 * max(1.0, abs(x)) for x, y in zip(A, B_))
    if not ok:
        out["violations"].append({"property": ID, "clause": "C19.unlimited-ps-empties-when-fifo-single-server-empties", "site": "metamorphic",
                                  "details": {"ps": A[:8], "fifo": B_[:8], "counts": [len(A), len(B_)]}})
    nrec = sum(len(i.data_records) for i in ra.Q.nodes[-1].all_individuals)
    out["nontrivial"] = len(A) >= 2 and nrec > len(A) + 2
    out["activity"] = {"busy_periods": len(A), "departures": nrec}
    out["classes"] = ["busy_periods>=5"] if len(A) >= 5 else []
    return out


@st.composite
def huge_ps_case(draw):
    """One PS node whose sharing capacity is in the hundreds and really fills up (large batches, long requirements)."""
    c = draw(st.integers(250, 300))
    batch = draw(st.sampled_from([90, 130, 160]))
    return {"classes": [{"name": "C0", "priority": 0, "arrival": [["det", draw(st.sampled_from([0.5, 1.0]))]], "batch": [["det", batch]],
                         "service": [draw(st.sampled_from([["det", 20.0], ["det", 35.0], ["uni", 15.0, 40.0]]))],
                         "routing": {"kind": "matrix", "rows": [[0.0]]}}],
            "nodes": [{"cap": "inf", "ps": True, "ps_threshold": draw(st.sampled_from([1, 2, 3, 2.5])), "servers": {"kind": "int", "c": c}}],
            "plan": {"kind": "max_time", "T": [draw(st.sampled_from([3.25, 4.25, 5.25]))]}, "seed": draw(st.integers(0, 99)), "event_budget": 400}


@st.composite
def late_clock_case(draw):
    """PS node whose whole activity happens at a very large clock value (a simulation that has been running for a long time): inter-event gaps of
    order 1 next to clock values of order 1e6-1e9, where anything computed relative to the clock is coarse."""
    B0 = draw(st.sampled_from([2.0 ** 20, 2.0 ** 26, 2.0 ** 30]))
    g = [0.25, 0.5, 0.75, 1.0, 1.5]
    classes = []
    for ci in range(draw(st.integers(1, 2))):
        arr = [B0 + draw(st.sampled_from(g))] + [draw(st.sampled_from(g)) for _ in range(draw(st.integers(4, 9)))] + ["inf"]
        classes.append({"name": "C%d" % ci, "priority": 0, "arrival": [["seq", arr]],
                        "service": [draw(st.sampled_from([["seq", [draw(st.sampled_from([0.5, 1.0, 1.0004, 1.5, 2.0, 3.0])) for _ in range(4)]], ["uni", 0.5, 3.0], ["exp", 0.8]]))],
                        "batch": [["det", draw(st.sampled_from([1, 1, 2]))]], "routing": {"kind": "matrix", "rows": [[draw(st.sampled_from([0.0, 0.0, 0.25]))]]}})
    node = {"cap": "inf", "ps": True, "ps_threshold": draw(st.sampled_from([1, 2, 1.5])), "servers": draw(st.sampled_from([{"kind": "inf"}, {"kind": "int", "c": 2}, {"kind": "int", "c": 3}]))}
    return {"classes": classes, "nodes": [node], "plan": {"kind": "max_time", "T": [B0 + 40.0]}, "seed": draw(st.integers(0, 999)), "event_budget": 600, "late_clock": B0}


def subchecks(tier):
    w = {"ps": 1.0, "inf": 0.2, "priorities": 0.25, "batching": 0.3, "routing_objects": 0.3, "self_loops": 0.4, "cc_after": 0.2,
         "process_routing": 0.2, "discipline": 0.1}
    prof = S.Profile(ALLOWED, weights=w, required=("ps",), numeric="cont", max_nodes=3, max_classes=3, plans=("max_time",), horizon=(5.0, 14.0),
                     budget=700, resumptions=(1, 1), excluded=())
    wg = dict(w)
    wg.update({"zero_service": 0.3, "batching": 0.5})
    gprof = S.Profile(ALLOWED + ["zero_service"], weights=wg, required=("ps",), numeric="grid", max_nodes=2, max_classes=2, plans=("max_time",),
                      horizon=(6.0, 16.0), budget=700, resumptions=(1, 1), load="heavy")
    return [
        system_subcheck("work", gprof, lambda spec: [PSWork(spec)], lambda a, spec, res: a.get("ps_departures_checked", 0) >= 5 and a.get("max_sharing", 0) >= 2,
                        classes=lambda a, spec, res: [k for k in ("ties_at_ps", "capacity_bound_waiting") if a.get(k)], log=True,
                        n={"quick": 4800, "thorough": 30000},
                        rule="tie-rich grid inputs: per-customer integration of received work over observed sharing sets == logged requirement at departure; no overstay"),
        system_subcheck("huge_ps", None, lambda spec: [PSWork(spec)], lambda a, spec, res: a.get("max_sharing", 0) >= 250 and a.get("capacity_bound_waiting", 0) >= 1,
                        classes=lambda a, spec, res: [k for k in ("ties_at_ps", "capacity_bound_waiting") if a.get(k)], log=True, strategy=huge_ps_case(),
                        n={"quick": 48, "thorough": 400},
                        rule="one PS node with a sharing capacity of 250-300 that fills up (batches of 90-160): at most `capacity` customers share, the others wait; same work monitor"),
        system_subcheck("late_clock", None, lambda spec: [PSWork(spec, tol=60 * 2.3e-16 * spec["late_clock"] + 1e-9)],
                        lambda a, spec, res: a.get("ps_departures_checked", 0) >= 5 and a.get("max_sharing", 0) >= 2,
                        classes=lambda a, spec, res: ["clock_2^%d" % {2.0 ** 20: 20, 2.0 ** 26: 26, 2.0 ** 30: 30}[spec["late_clock"]]], log=True, strategy=late_clock_case(),
                        n={"quick": 1600, "thorough": 8000},
                        rule="the whole activity of a PS node at clock values of 2^20 .. 2^30 (gaps of order 1): received work == requirement within a slack of 60 ulps "
                             "of the clock; same work monitor"),
        system_subcheck("fluid", prof, lambda spec: [PSMonitor(spec)], nontrivial, classes=classes, log=True,
                        n={"quick": 7200, "thorough": 40000}, rule="records at PS nodes vs exact-rational fluid model; sharing monitor"),
        SubCheck("busy_periods", busy_execute, strategy=busy_case(), n={"quick": 4800, "thorough": 20000}, kind="metamorphic", is_spec=False,
                 rule="single unlimited PS node vs one-server FIFO node, same arrivals and keyed requirements: emptying instants coincide"),
    ]
