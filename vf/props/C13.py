"""C13 -- reneging and baulking happen exactly when the model says."""
import random as _random

from ..sysprop import system_subcheck, Activity
from ..monitors.patience import Patience, Baulking
from .. import strategies as S
from .. import observe as O
from .. import build as B
from ..runner import SubCheck
from . import common

ID = "C13"
RULE = ("(a) reneging: NetSpecs with logged reneging distributions per class and node (incl. zero patience), priorities, non-pre-emptive "
        "schedules, capacities/blocking, jockeying destinations, batches, class changes.  Monitor: no waiting customer is overdue "
        "(arrival + logged patience < now); audit: a renege record leaves exactly at arrival + patience (same addition), was never "
        "in service in that visit, and went to a jockeying destination of positive probability (exit by default); served customers "
        "started within their patience.  (b) baulking: baulking functions returning 0, 1 and interior probabilities; the uniform "
        "variate Ciw draws is observed through a pass-through; oracle: the function sees the true population (per batch member), "
        "baulk <=> u < p, a baulker is at the exit at once with one baulk record showing that population, others are admitted.  "
        "Non-trivial: (a) >= 1 renege and >= 1 patient customer served; (b) >= 1 baulk and >= 1 admission under a baulking function.")
ASSUMPTIONS = ["the pass-through installed as ciw.arrival_node.random returns the real random.random() value (behaviour unchanged)"]
TECHNIQUE = 'property-based testing with logged patience samples and observed baulking decisions (function arguments and the uniform variate)'
WALL = {"quick": 150, "thorough": 540}

REN_ALLOWED = ["schedule", "capacity", "priorities", "reneging", "jockeying", "batching", "cc_after", "cc_waiting", "discipline",
               "routing_objects", "self_loops", "zero_service", "inf", "system_capacity", "server_priority", "slotted", "slot_capacitated", "slot_preempt"]
BAULK_ALLOWED = ["capacity", "priorities", "baulking", "batching", "system_capacity", "routing_objects", "self_loops", "inf", "schedule",
                 "reneging", "zero_servers", "cc_after"]


def nt_ren(a, spec, res):
    return a.get("reneges", 0) >= 1 and a.get("patient_served", 0) >= 1


def cl_ren(a, spec, res):
    return [k for k in ("races", "jockeys", "blocked_records", "ev_shift_change") if a.get(k)]


def nt_baulk(a, spec, res):
    return a.get("baulks", 0) >= 1 and a.get("admitted_under_baulking", 0) >= 1


def cl_baulk(a, spec, res):
    return [k for k in ("baulk_p0", "baulk_p1", "baulk_interior", "rec_rejection") if a.get(k)]


def baulk_execute_factory(prof):
    import ciw.arrival_node as AN

    def execute(spec):
        ulog = []

        def logging_random():
            u = _random.random()
            ulog.append(u)
            return u
        act = Activity()
        mon = Baulking(spec, ulog)
        old = AN.random
        AN.random = logging_random
        try:
            res = O.run_case(spec, [act, mon], obs=True, baulk_log=True)
        finally:
            AN.random = old
        a = dict(act.a)
        a.update(mon.activity)
        return {"violations": list(res.violations), "activity": {k: v for k, v in a.items() if v}, "aborted": res.aborted,
                "budget_hit": res.budget_hit, "events": res.n_events, "nontrivial": nt_baulk(a, spec, res),
                "classes": cl_baulk(a, spec, res), "score": a.get("baulks", 0)}
    return execute


def subchecks(tier):
    w = {"reneging": 1.0, "jockeying": 0.5, "schedule": 0.25, "capacity": 0.4, "priorities": 0.4, "batching": 0.3, "cc_after": 0.15,
         "cc_waiting": 0.15, "discipline": 0.3, "routing_objects": 0.5, "self_loops": 0.4, "zero_service": 0.3, "inf": 0.1,
         "system_capacity": 0.1, "server_priority": 0.1, "slotted": 0.2, "slot_capacitated": 0.7, "slot_preempt": 0.7, "sched_preempt": 0.0}
    ren = S.Profile(REN_ALLOWED, weights=w, required=("reneging",), numeric="mixed", max_nodes=3, max_classes=3,
                    plans=("max_time", "max_time", "max_customers"), horizon=(5.0, 14.0), budget=600, load="heavy",
                    excluded=())
    wb = {"baulking": 1.0, "capacity": 0.4, "priorities": 0.3, "batching": 0.5, "system_capacity": 0.2, "routing_objects": 0.3,
          "self_loops": 0.3, "inf": 0.1, "schedule": 0.15, "reneging": 0.2, "zero_servers": 0.1, "cc_after": 0.1, "sched_preempt": 0.0}
    bprof = S.Profile(BAULK_ALLOWED, weights=wb, required=("baulking",), numeric="mixed", max_nodes=3, max_classes=3,
                      plans=("max_time", "max_customers"), horizon=(5.0, 14.0), budget=600, load="heavy")
    # customers whose service has started no longer renege, also after that service is interrupted: pre-emptive priorities (three levels, so
    # that a pre-emptor can itself be pre-empted) and pre-emptive schedules at reneging nodes
    wp = {"reneging": 1.0, "priorities": 1.0, "prio_preempt": 1.0, "schedule": 0.3, "sched_preempt": 0.6, "capacity": 0.2, "batching": 0.3,
          "cc_waiting": 0.6, "discipline": 0.2, "self_loops": 0.3, "routing_objects": 0.3, "zero_service": 0.2, "server_priority": 0.1}
    renp = S.Profile(list(wp), weights=wp, required=("reneging", "priorities", "prio_preempt"), numeric="mixed", max_nodes=2, max_classes=3,
                     plans=("max_time",), horizon=(6.0, 16.0), budget=600, load="heavy", excluded=common.KNOWN_EXCLUSIONS)

    def nt_renp(a, spec, res):
        return a.get("reneges", 0) >= 1 and a.get("rec_interrupted_service", 0) >= 1

    def cl_renp(a, spec, res):
        out = [k for k in ("races", "rec_interrupted_service", "obs_preempt", "ev_shift_change") if a.get(k)]
        if len(set(c.get("priority", 0) for c in spec["classes"])) >= 3:
            out.append("three_priority_levels")
        return out
    wb2 = {"baulking": 1.0, "batching": 1.0, "priorities": 1.0, "prio_preempt": 1.0, "prio_reroute": 1.0, "capacity": 0.3, "routing_objects": 0.3,
           "self_loops": 0.3, "system_capacity": 0.1}
    bprof2 = S.Profile(list(wb2), weights=wb2, required=("baulking", "batching", "priorities", "prio_preempt", "prio_reroute"), numeric="grid", max_nodes=2,
                       max_classes=3, plans=("max_time",), horizon=(5.0, 14.0), budget=600, load="heavy", max_c=2)
    # baulking functions at nodes whose pre-emptive schedule leaves interrupted customers in the node: they belong to the population
    wb3 = {"baulking": 1.0, "schedule": 1.0, "sched_preempt": 1.0, "batching": 0.4, "priorities": 0.3, "capacity": 0.3, "routing_objects": 0.2,
           "self_loops": 0.3, "system_capacity": 0.1}
    bprof3 = S.Profile(list(wb3), weights=wb3, required=("baulking", "schedule", "sched_preempt"), numeric="grid", max_nodes=2, max_classes=2,
                       plans=("max_time",), horizon=(6.0, 16.0), budget=600, load="heavy", long_service=0.5)
    feed = common.slot_feed_profile("C13", downstream="int", more_weights={"reneging": 1.0, "jockeying": 0.3}, required=("slotted", "slot_capacitated", "slot_preempt", "reneging"),
                                    excluded=())
    return [
        system_subcheck("slot_feed", feed, lambda spec: [Patience(spec)], lambda a, spec, res: a.get("reneges", 0) >= 1 and a.get("rec_interrupted_service", 0) >= 1,
                        classes=cl_ren, obs=False, log=True, n={"quick": 2400, "thorough": 15000},
                        rule="capacitated pre-emptive slotted node feeding a reneging node: interrupted-and-resumed customers still renege on time"),
        system_subcheck("reneging_preempt", renp, lambda spec: [Patience(spec)], nt_renp, classes=cl_renp, obs=True, log=True,
                        n={"quick": 3600, "thorough": 20000},
                        rule="reneging at nodes with pre-emptive priorities / schedules: an interrupted customer has started service and never reneges"),
        system_subcheck("reneging", ren, lambda spec: [Patience(spec)], nt_ren, classes=cl_ren, obs=False, log=True,
                        n={"quick": 7200, "thorough": 40000}, rule="logged patience vs renege/service records; overdue monitor"),
        SubCheck("baulking_reroute", baulk_execute_factory(bprof2), strategy=S.netspec(bprof2), n={"quick": 2400, "thorough": 15000},
                 kind="system", rule="batch arrivals with baulking functions at nodes with 're-route' pre-emption: an admitted batch member can push "
                                     "a customer out of the node before the next member's baulking function is evaluated; same oracle"),
        SubCheck("baulking_sched_preempt", baulk_execute_factory(bprof3), strategy=S.netspec(bprof3), n={"quick": 2400, "thorough": 15000},
                 kind="system", rule="baulking functions at nodes with pre-emptive server schedules: interrupted customers waiting for a server "
                                     "count in the population the function sees; same oracle"),
        SubCheck("baulking", baulk_execute_factory(bprof), strategy=S.netspec(bprof), n={"quick": 6000, "thorough": 30000},
                 kind="system", rule="baulk <=> u < p(true population); baulk record; admission otherwise"),
    ]
