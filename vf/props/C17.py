"""C17 -- state trackers equal the true configuration; probabilities are time shares."""
from fractions import Fraction
import types

from hypothesis import strategies as st

from ..sysprop import system_subcheck
from ..monitors.trackers import TrackerTruth
from .. import strategies as S
from .. import observe as O
from ..runner import SubCheck
from . import common

ID = "C17"
RULE = ("(a) system: each of the seven built-in trackers on the full lattice (blocking, class change after service and while waiting, "
        "reneging/jockeying, pre-emption, reroute, batches, baulking).  After every event hash_state() must equal the state recomputed "
        "from the object graph (populations; subsets / groups; class matrix from customer_class; blocked counts; blocking-rank matrix "
        "from the monitor's own blocking-order list) and contain no negative count; at the end the history has non-decreasing "
        "timestamps, no repeated state, and equals the monitor's independent change log.  (b) unit: state_probabilities on "
        "Hypothesis-generated histories and finite windows (endpoints on, between and beyond timestamps) vs exact Fraction integration; "
        "sums to 1.  Non-trivial (a): >= 20 state changes; distinct by digest.")
ASSUMPTIONS = ["simulate_until_deadlock does not timestamp (S6): history clause only for max_time / max_customers plans",
               "an infinite observation window has no defined share for the final state; the unit oracle uses finite windows"]
TECHNIQUE = 'property-based testing: tracker state compared with state recomputed from the object graph after every event (blocking order from the own model of the monitor), storyboard generator for a six-step customer history, tracker object reused by a second Simulation; unit property of state_probabilities against exact time shares'
WALL = {"quick": 150, "thorough": 540}


def nontrivial(a, spec, res):
    return a.get("state_changes", 0) >= 20


def classes(a, spec, res):
    out = ["tracker_" + spec["tracker"]["kind"]]
    if a.get("blocked_seen"):
        out.append("blocked_seen")
    if a.get("max_blocked", 0) >= 2:
        out.append(">=2_blocked_at_once")
    for k in ("cc_waiting", "rec_renege", "rec_interrupted_service", "obs_cc_after"):
        if a.get(k):
            out.append(k)
    return out


# ---- unit: state_probabilities ------------------------------------------------------------------
@st.composite
def hist_case(draw):
    n = draw(st.integers(1, 7))
    gaps = draw(st.lists(st.sampled_from([0.25, 0.5, 1.0, 1.5, 2.0]), min_size=n - 1, max_size=n - 1))
    times = [0.0]
    for g in gaps:
        times.append(times[-1] + g)
    states = [draw(st.integers(0, 3))]
    for _ in range(n - 1):
        states.append(draw(st.integers(0, 3).filter(lambda x, p=states[-1]: x != p)))
    pts = sorted(set(times + [t + 0.125 for t in times] + [times[-1] + 1.0, times[-1] + 3.0]))
    a = draw(st.sampled_from(pts))
    b = draw(st.sampled_from([p for p in pts if p > a] + [pts[-1] + 5.0]))
    return {"times": times, "states": states, "window": [a, b]}


def hist_execute(case):
    import ciw
    tr = ciw.trackers.StateTracker()
    node = types.SimpleNamespace(increment_time=lambda a, b: a + b)
    tr.simulation = types.SimpleNamespace(nodes=[None, node], current_time=0.0)
    full = [[t, s] for t, s in zip(case["times"], case["states"])]
    a, b = case["window"]
    viol = []
    try:
        # the same window is first queried on a prefix of the history (a paused run) and then on the full history
        k = 1 + (len(full) * 7 + int(a * 8)) % len(full)
        tr.history = full[:k]
        tr.state_probabilities(observation_period=(a, b))
        tr.history = full
        got = tr.state_probabilities(observation_period=(a, b))
    except Exception as e:
        return {"violations": [{"property": ID, "clause": "C17.state_probabilities-raises", "site": type(e).__name__, "details": case}],
                "nontrivial": False, "classes": []}
    exp = {}
    T = case["times"] + [None]
    for i, s in enumerate(case["states"]):
        lo = Fraction(T[i])
        hi = Fraction(T[i + 1]) if T[i + 1] is not None else Fraction(b)
        lo, hi = max(lo, Fraction(a)), min(hi, Fraction(b))
        if hi > lo:
            exp[s] = exp.get(s, 0) + (hi - lo)
    tot = sum(exp.values())
    exp = {k: float(v / tot) for k, v in exp.items()}
    on_ts = b in case["times"]
    gotp = {k: v for k, v in got.items() if v != 0}
    if set(gotp) != set(exp) or any(abs(gotp[k] - exp[k]) > 1e-9 for k in exp):
        viol.append({"property": ID, "clause": "C17.state-probabilities-are-exact-time-shares",
                     "site": "window-end-on-timestamp" if on_ts else "window-end-off-timestamp",
                     "details": {"history": [[t, s] for t, s in zip(case["times"], case["states"])], "window": [a, b], "got": got, "expected": exp}})
    if abs(sum(got.values()) - 1.0) > 1e-9:
        viol.append({"property": ID, "clause": "C17.state-probabilities-sum-to-one", "site": "unit", "details": {"got": got}})
    return {"violations": viol, "nontrivial": len(case["times"]) >= 3,
            "classes": ["end_on_timestamp" if on_ts else "end_off_timestamp", "start_on_timestamp" if a in case["times"] else "start_off_timestamp"]}


@st.composite
def reserved_story(draw):
    """Storyboard generator (structure fixed, timings and options drawn): a customer finishes at a scheduled node, changes class there (A -> B), is
    blocked by a full node, interrupted while blocked by a pre-emptive shift end, served again when servers return, pre-empted by a top-priority
    arrival and then changes class while waiting (B -> A).  Every tracker must follow it through all of that."""
    e1 = draw(st.sampled_from([3.0, 4.0]))
    gap = draw(st.sampled_from([0.5, 1.0, 2.0]))
    e3 = e1 + gap + draw(st.sampled_from([4.0, 6.0, 8.0]))
    pb = draw(st.sampled_from([1, 1, 2]))                   # priority of B: equal to A's (1) or lower
    opt = draw(st.sampled_from(["restart", "resample", "restart", "resample", "resume"]))
    popt = draw(st.sampled_from(["resume", "restart", "resample"]))
    tracker = S.tracker(draw, 2, ["A", "B", "H"])
    a_arr = [draw(st.sampled_from([0.25, 0.5])), draw(st.sampled_from([0.25, 0.5, 1.0])), draw(st.sampled_from([0.5, 1.0, 4.0])), "inf"]
    h_arr = [round(e1 + gap + draw(st.sampled_from([0.25, 0.25, 0.5, 1.0])), 6), draw(st.sampled_from([1.0, 2.0])), "inf"]
    srv_a = draw(st.sampled_from([0.5, 0.75]))
    ident = lambda c: {x: (1.0 if x == c else 0.0) for x in ("A", "B", "H")}
    classes = [
        {"name": "A", "priority": 1, "arrival": [["seq", a_arr], None], "service": [["det", srv_a], ["det", draw(st.sampled_from([6.0, 9.0, 12.0]))]],
         "routing": {"kind": "matrix", "rows": [[0.0, 1.0], [0.0, 0.0]]}},
        {"name": "B", "priority": pb, "arrival": [None, None], "service": [["det", draw(st.sampled_from([2.0, 3.0]))], ["det", draw(st.sampled_from([9.0, 12.0]))]],
         "cct": {"A": ["det", draw(st.sampled_from([0.25, 0.5, 1.0]))]}, "routing": {"kind": "matrix", "rows": [[0.0, 1.0], [0.0, 0.0]]}},
        {"name": "H", "priority": 0, "arrival": [["seq", h_arr], None], "service": [["det", draw(st.sampled_from([1.0, 2.0, 3.0]))], ["det", 1.0]],
         "routing": {"kind": "matrix", "rows": [[0.0, 0.0], [0.0, 0.0]]}},
    ]
    nodes = [{"cap": "inf", "prio_preempt": popt, "ccm": {"A": {"A": 0.0, "B": 1.0, "H": 0.0}, "B": ident("B"), "H": ident("H")},
              "servers": {"kind": "schedule", "numbers": [draw(st.sampled_from([1, 2])), 0, draw(st.sampled_from([1, 2]))], "ends": [e1, e1 + gap, e3],
                          "preemption": opt, "offset": 0.0}},
             {"cap": 0, "servers": {"kind": "int", "c": 1}}]
    return {"classes": classes, "nodes": nodes, "tracker": tracker, "plan": {"kind": "max_time", "T": [round(e3 + 1.0, 6)]},
            "seed": draw(st.integers(0, 50)), "event_budget": 400}


def class_matrix_profile(blocked=False, sched=False):
    if sched:
        w = {"tracker": 1.0, "cc_waiting": 1.0, "schedule": 1.0, "sched_preempt": 0.3, "priorities": 0.3, "batching": 0.5, "cc_after": 0.2, "self_loops": 0.3,
             "discipline": 0.2, "reneging": 0.2}
        return S.Profile(list(w), weights=w, required=("tracker", "cc_waiting", "schedule"), numeric="grid", max_nodes=2, max_classes=3, plans=("max_time",),
                         horizon=(8.0, 20.0), budget=600, load="heavy", max_c=3, tracker_kinds=("NodeClassMatrix",), excluded=common.EXCL["C17"])
    if blocked:
        w = {"tracker": 1.0, "priorities": 1.0, "prio_preempt": 1.0, "cc_waiting": 1.0, "cc_after": 1.0, "schedule": 1.0, "sched_preempt": 1.0, "capacity": 1.0,
             "self_loops": 0.5, "batching": 0.3, "discipline": 0.2}
        return S.Profile(list(w), weights=w, required=tuple(k for k in w if w[k] == 1.0), numeric="grid", max_nodes=2, max_classes=3,
                         plans=("max_time",), horizon=(10.0, 24.0), budget=700, load="heavy", max_c=2, caps=(0, 1, 1), resumptions=(1, 1), stay=0.6,
                         tracker_kinds=("NodeClassMatrix",), excluded=common.EXCL["C17"])
    w = {"tracker": 1.0, "priorities": 1.0, "prio_preempt": 1.0, "prio_reroute": 0.4, "cc_waiting": 1.0, "cc_after": 0.6, "schedule": 0.4, "sched_preempt": 0.6,
         "reneging": 0.3, "batching": 0.3, "self_loops": 0.5, "capacity": 0.3, "discipline": 0.2, "routing_objects": 0.2}
    return S.Profile(list(w), weights=w, required=("tracker", "priorities", "prio_preempt", "cc_waiting"), numeric="grid", max_nodes=2, max_classes=3,
                     plans=("max_time",), horizon=(8.0, 20.0), budget=600, load="heavy", max_c=2, tracker_kinds=("NodeClassMatrix", "NodeClassMatrix", "NodePopulation"),
                     excluded=common.EXCL["C17"])


def reused_tracker_subcheck():
    """The same tracker *object* handed to a second Simulation: Simulation.__init__ calls tracker.initialise(), which must start it afresh
    whatever state the first run left behind (e.g. customers still blocked when it stopped)."""
    import ciw
    from .. import build as B
    from ..sysprop import Activity
    prof = common.full_profile("C17", max_nodes=3, plans=("max_time",), resumptions=(1, 1), horizon=(4.0, 10.0), budget=400, load="heavy", caps=(0, 1, 1, 2))
    prof.required = {"tracker"}
    prof.weights.update({"capacity": 0.8, "cc_after": 0.3, "reneging": 0.3, "ps": 0.0, "slotted": 0.05})

    def execute(spec):
        ciw.seed(spec["seed"])
        tracker = B.make_tracker(spec["tracker"])
        b1 = B.build(spec)
        kw1 = dict(b1.sim_kwargs)
        kw1["tracker"] = tracker
        first = O.MonSimulation(b1.network, monitors=(), budget=400, obs=False, ps_nodes=b1.ps_nodes, **kw1)
        blocked_left = 0
        try:
            first.simulate_until_max_time(spec["plan"]["T"][0])
        except Exception:
            pass
        blocked_left = sum(1 for nd in first.transitive_nodes for i in O.customers(nd) if i.is_blocked)
        ciw.seed(spec["seed"] + 1)
        b2 = B.build(spec)
        kw2 = dict(b2.sim_kwargs)
        kw2["tracker"] = tracker
        act = Activity()
        mon = TrackerTruth(spec)
        second = O.MonSimulation(b2.network, monitors=[act, mon], budget=400, obs=False, ps_nodes=b2.ps_nodes, **kw2)
        second.built = b2
        second.plan_steps = [("max_time", spec["plan"]["T"][0])]
        second.cur_step = second.plan_steps[0]
        second.call_index = 0
        res = O.CaseResult()
        try:
            second.simulate_until_max_time(spec["plan"]["T"][0])
            res.calls_completed = 1
        except O.Budget:
            res.budget_hit = True
        except Exception as e:
            if O.harness_fault(e):
                raise
            res.aborted = O.exception_bucket(e)
        res.n_events = second.n_events
        act.finish(second, res)
        mon.finish(second, res)
        a = dict(act.a)
        a.update({k: v for k, v in getattr(mon, "activity", {}).items()})
        return {"violations": list(second.violations), "activity": {k: v for k, v in a.items() if v}, "aborted": res.aborted, "budget_hit": res.budget_hit,
                "events": second.n_events, "nontrivial": a.get("events", 0) >= 20 and blocked_left >= 1 and a.get("blocked_seen", 0) >= 1,
                "classes": ["first_run_stopped_with_blocked_customers"] * (blocked_left >= 1) + ["tracker_" + spec["tracker"]["kind"]],
                "score": second.n_events}
    return SubCheck("reused_tracker", execute, strategy=S.netspec(prof), n={"quick": 3600, "thorough": 20000}, kind="system",
                    rule="tracker-truth monitor on a second Simulation that is given the tracker object of a first, stopped run; "
                         "non-trivial = the first run stopped with blocked customers and the second run blocks too")


def subchecks(tier):
    prof = common.full_profile("C17", max_nodes=3)
    prof.required = {"tracker"}
    prof.weights.update({"capacity": 0.6, "cc_after": 0.35, "cc_waiting": 0.3, "reneging": 0.35, "ps": 0.05, "slotted": 0.1})
    return [
        system_subcheck("system", prof, lambda spec: [TrackerTruth(spec)], nontrivial, classes=classes,
                        n={"quick": 9600, "thorough": 50000}, rule="hash_state vs ground truth after every event; history audit"),
        system_subcheck("sched_blocked", common.region_profile("C17", more_weights={"tracker": 1.0}, required=("schedule", "capacity", "tracker")),
                        lambda spec: [TrackerTruth(spec)], lambda a, spec, res: a.get("blocked_seen", 0) >= 1 and a.get("rec_interrupted_service", 0) >= 1,
                        classes=classes, n={"quick": 4800, "thorough": 30000},
                        rule="pre-emptive schedules x blocking region with every tracker (MatrixBlocking excluded there: F6h)"),
        system_subcheck("class_matrix", class_matrix_profile(), lambda spec: [TrackerTruth(spec)],
                        lambda a, spec, res: a.get("ev_class_change", 0) >= 1 and a.get("rec_interrupted_service", 0) >= 1, classes=classes,
                        n={"quick": 3600, "thorough": 20000},
                        rule="NodeClassMatrix under every way a customer's class or place changes: class change while waiting and after service, "
                             "pre-emptive priorities (incl. reroute) and schedules, reneging; same truth monitor"),
        system_subcheck("class_matrix_sched", class_matrix_profile(sched=True), lambda spec: [TrackerTruth(spec)],
                        lambda a, spec, res: a.get("ev_class_change", 0) >= 2 and a.get("ev_shift_change", 0) >= 2, classes=classes, n={"quick": 3000, "thorough": 20000},
                        rule="NodeClassMatrix with timed class changes at scheduled nodes (shift starts that put several waiting customers into service at once), "
                             "classes that often share a priority"),
        system_subcheck("class_matrix_blocked", class_matrix_profile(blocked=True), lambda spec: [TrackerTruth(spec)],
                        lambda a, spec, res: a.get("ev_class_change", 0) >= 1 and a.get("rec_interrupted_service", 0) >= 1 and a.get("blocked_seen", 0) >= 1,
                        classes=classes, n={"quick": 3600, "thorough": 20000},
                        rule="NodeClassMatrix where customers that changed class after service are blocked, interrupted while blocked by a pre-emptive shift end, "
                             "served again, pre-empted and change class while waiting; three classes, two of which may share a priority"),
        system_subcheck("slot_feed", common.slot_feed_profile("C17", downstream="int", more_weights={"tracker": 1.0, "capacity": 1.0, "reneging": 0.1},
                                                              required=("slotted", "slot_capacitated", "slot_preempt", "tracker", "capacity"), caps=(0, 0, 1)),
                        lambda spec: [TrackerTruth(spec)], lambda a, spec, res: a.get("rec_interrupted_service", 0) >= 1 and a.get("blocked_seen", 0) >= 1,
                        classes=classes, n={"quick": 2400, "thorough": 15000},
                        rule="capacitated pre-emptive slotted node whose customers are blocked by a small downstream node: state changes that happen at slot events "
                             "(a blocked customer interrupted / resumed in place) must be in the tracker and in its history at their time"),
        system_subcheck("reserved_story", None, lambda spec: [TrackerTruth(spec)],
                        lambda a, spec, res: a.get("ev_class_change", 0) >= 1 and a.get("rec_interrupted_service", 0) >= 2 and a.get("blocked_seen", 0) >= 1,
                        classes=classes, strategy=reserved_story(), n={"quick": 1600, "thorough": 8000},
                        rule="storyboard: finish + class change after service -> blocked -> interrupted while blocked -> served again -> pre-empted -> class change "
                             "while waiting (timings, options, priorities and the tracker drawn); non-trivial = the run really contains those steps"),
        reused_tracker_subcheck(),
        SubCheck("state_probabilities", hist_execute, strategy=hist_case(), n={"quick": 24000, "thorough": 80000}, kind="unit", is_spec=False,
                 rule="histories of 1-7 states on a dyadic time grid x finite windows with endpoints on / between / beyond timestamps; non-trivial = >= 3 states"),
    ]
