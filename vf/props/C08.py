"""C08 -- service order: highest priority class first, discipline within class."""
import types

from hypothesis import strategies as st

from ..sysprop import system_subcheck
from ..monitors.order import ServiceOrder
from .. import strategies as S
from ..runner import SubCheck
from . import common

ID = "C08"
RULE = ("(a) system: 1-3 priority classes over 1-3 customer classes, FIFO/LIFO/SIRO per node, fixed or non-pre-emptively scheduled "
        "servers, pre-emptive priorities, blocking, batches, class changes after service and while waiting.  At every service start "
        "(observed at attach_server, with the list of customers waiting at that instant) the chosen customer is in the best priority "
        "class that has anyone waiting and is the earliest (FIFO) / latest (LIFO) / any (SIRO) by the monitor's own arrival order "
        "(event at which the customer joined the queue of its current priority class, then id).  Audit: at FIFO fixed-server nodes "
        "without class changes no customer starts while an equal-or-better-priority strictly earlier arrival still waits.  "
        "(b) unit: ciw.disciplines.* on generated lists; SIRO reaches every position.  Non-trivial (a): a start with >= 2 candidates "
        "in one class or candidates in >= 2 classes; distinct by digest.")
ASSUMPTIONS = ["a customer whose priority changes while queueing joins the tail of its new class queue (S3)",
               "restarts of schedule-interrupted customers and slotted nodes are C12's subject"]
TECHNIQUE = "property-based testing: every service start (attach_server / slot difference) compared with a priority + discipline oracle using the monitor's own arrival order; unit checks of the discipline functions"
WALL = {"quick": 150, "thorough": 540}

ALLOWED = ["schedule", "sched_preempt", "slotted", "slot_capacitated", "slot_preempt", "capacity", "priorities", "prio_preempt", "batching", "cc_after", "cc_waiting", "discipline", "server_priority",
           "routing_objects", "process_routing", "self_loops", "zero_service", "inf", "reneging", "system_capacity"]


def nontrivial(a, spec, res):
    return a.get("multi_candidate_starts", 0) + a.get("multi_class_starts", 0) >= 1


def classes(a, spec, res):
    return [k for k in ("multi_candidate_starts", "multi_class_starts", "lifo_siro_choices", "starts_after_unblock", "starts_at_shift_change",
                        "starts_after_class_change", "fifo_audited") if a.get(k)]


@st.composite
def disc_case(draw):
    n = draw(st.integers(1, 8))
    return {"n": n, "u": draw(st.floats(0.0, 1.0, exclude_max=True, allow_nan=False)), "disc": draw(st.sampled_from(["FIFO", "LIFO", "SIRO"]))}


def disc_execute(case):
    import ciw
    import ciw.auxiliary as AUX
    inds = [ciw.Individual(i + 1) for i in range(case["n"])]
    fake = types.SimpleNamespace(random=lambda: case["u"])
    real = AUX.random
    AUX.random = fake
    try:
        got = getattr(ciw.disciplines, case["disc"])(list(inds), 1.0)
    finally:
        AUX.random = real
    viol = []
    exp = {"FIFO": inds[0], "LIFO": inds[-1], "SIRO": inds[int(case["u"] * case["n"])]}[case["disc"]]
    if got is not exp:
        viol.append({"property": ID, "clause": "C08.discipline-function-" + case["disc"], "site": "unit",
                     "details": {"n": case["n"], "u": case["u"], "got": getattr(got, "id_number", repr(got)), "expected": exp.id_number}})
    return {"violations": viol, "nontrivial": case["n"] >= 2, "classes": [case["disc"]]}


def subchecks(tier):
    w = {"schedule": 0.2, "capacity": 0.3, "priorities": 0.8, "prio_preempt": 0.3, "batching": 0.4, "cc_after": 0.25, "cc_waiting": 0.3,
         "discipline": 0.7, "server_priority": 0.2, "routing_objects": 0.3, "process_routing": 0.2, "self_loops": 0.4, "zero_service": 0.3,
         "inf": 0.1, "reneging": 0.15, "system_capacity": 0.1, "sched_preempt": 0.4, "slotted": 0.2, "slot_capacitated": 0.6, "slot_preempt": 0.6}
    prof = S.Profile(ALLOWED, weights=w, numeric="mixed", max_nodes=3, max_classes=3, plans=("max_time", "max_customers"),
                     horizon=(5.0, 14.0), budget=600, load="heavy", excluded=("cc_preempt_after_restart",))
    # shift changes that free four or more servers at once while more customers wait than servers open, under LIFO / SIRO and priorities
    wbp = {"schedule": 1.0, "discipline": 1.0, "sched_preempt": 0.4, "batching": 0.8, "priorities": 0.5, "prio_preempt": 0.2, "capacity": 0.2,
           "self_loops": 0.3, "server_priority": 0.2, "cc_waiting": 0.2, "reneging": 0.1}
    bigp = S.Profile(list(wbp), weights=wbp, required=("schedule", "discipline"), numeric="grid", max_nodes=2, max_classes=3, plans=("max_time",),
                     horizon=(8.0, 20.0), budget=900, load="heavy", max_c=9, long_service=0.5, excluded=("cc_preempt_after_restart",))

    def nt_big(a, spec, res):
        return nontrivial(a, spec, res) and a.get("starts_at_shift_change", 0) >= 1 and a.get("lifo_siro_choices", 0) >= 1
    return [
        system_subcheck("big_pools", bigp, lambda spec: [ServiceOrder(spec)], nt_big, classes=classes, obs=True,
                        n={"quick": 2400, "thorough": 15000},
                        rule="server pools of up to 9 with schedules and LIFO/SIRO disciplines: several servers open at one shift change while more customers "
                             "wait than servers open; same priority/discipline oracle for every start"),
        system_subcheck("system", prof, lambda spec: [ServiceOrder(spec)], nontrivial, classes=classes, obs=True,
                        n={"quick": 7200, "thorough": 40000}, rule="service starts vs priority/discipline oracle"),
        SubCheck("disciplines", disc_execute, strategy=disc_case(), n={"quick": 12000, "thorough": 40000}, kind="unit",
                 rule="FIFO head / LIFO tail / SIRO element at floor(u*n) for lists of 1-8 customers; non-trivial = list of >= 2", is_spec=False),
    ]
