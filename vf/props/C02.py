"""C02 -- causal monotone time: clock never goes back, record arithmetic consistent."""
from ..sysprop import system_subcheck, fuzz_subcheck
from ..monitors.timeflow import TimeFlow
from . import common

ID = "C02"
RULE = ("NetSpecs from the full feature lattice with non-negative samples (all built-in distributions, zero-length services and "
        "zero patience included), grid (tie-rich) and continuous profiles.  Monitor: each event executes exactly at its node's "
        "scheduled date, the clock never decreases, after every event no active node has a next event date in the past; every "
        "record appended during an event is checked at once against the clock of that event (orderings, and the three duration "
        "fields equal to the corresponding differences, exactly).  Non-trivial: >= 50 events, records of >= 2 types and >= 1 "
        "record with positive wait or positive blocked time; distinct by spec digest.")
ASSUMPTIONS = ["exact float equality is used because oracle and code perform the identical subtraction on identical operands"]
TECHNIQUE = 'property-based testing: generated networks (lattice, slotted-heavy and pre-emptive-schedule x blocking profiles) with a clock / record-arithmetic / next-event-bookkeeping monitor after every event; coverage-guided fuzzing (atheris)'
WALL = {"quick": 150, "thorough": 540}


def nontrivial(a, spec, res):
    types = sum(1 for k in a if k.startswith("rec_") and a[k])
    return a.get("events", 0) >= 50 and types >= 2 and (a.get("waited_records", 0) + a.get("blocked_records", 0)) >= 1


def classes(a, spec, res):
    return [k[4:] for k in a if k.startswith("rec_") and a[k]] + (["blocked_time>0"] if a.get("blocked_records") else [])


def subchecks(tier):
    prof = common.full_profile("C02", allowed=common.FULL + ["exact"])
    prof.weights["exact"] = 0.1
    base = system_subcheck("lattice", prof, lambda spec: [TimeFlow()], nontrivial, classes=classes,
                            n={"quick": 12000, "thorough": 60000}, rule="full lattice; clock + record monitor after every event")
    # slotted nodes with capacitated, pre-emptive slots and long services: repeated interruptions of the same customer
    from .. import strategies as S
    w = {"slotted": 1.0, "slot_capacitated": 0.9, "slot_preempt": 0.9, "priorities": 0.4, "batching": 0.4, "self_loops": 0.3, "reneging": 0.2,
         "inf": 0.1, "routing_objects": 0.2, "discipline": 0.2, "cc_after": 0.1}
    sl = S.Profile(list(w), weights=w, required=("slotted",), numeric="grid", max_nodes=2, max_classes=2, plans=("max_time",), horizon=(8.0, 20.0),
                   budget=600, load="heavy", resumptions=(1, 1))
    slotted = system_subcheck("slotted", sl, lambda spec: [TimeFlow()], lambda a, spec, res: a.get("rec_interrupted_service", 0) >= 2 and a.get("events", 0) >= 40,
                              classes=classes, n={"quick": 3600, "thorough": 30000}, rule="slotted nodes (capacitated, pre-emptive) under heavy load; same monitor")
    region = system_subcheck("sched_blocked", common.region_profile("C02"), lambda spec: [TimeFlow()],
                             lambda a, spec, res: a.get("rec_interrupted_service", 0) >= 1 and a.get("blocked_records", 0) >= 1, classes=classes,
                             n={"quick": 3600, "thorough": 30000}, rule="pre-emptive schedules x blocking region (heavy load, grid times); same monitor")
    combo = system_subcheck("preempt_combo", common.combo_profile("C02"), lambda spec: [TimeFlow()],
                            lambda a, spec, res: a.get("rec_interrupted_service", 0) >= 2 and a.get("ev_shift_change", 0) >= 2, classes=classes,
                            n={"quick": 3600, "thorough": 30000},
                            rule="pre-emptive priorities and pre-emptive schedules at the same nodes, priority-raising class changes while waiting, reneging (grid times, heavy load); same monitor")
    long_run = system_subcheck("long_run", common.full_profile("C02", plans=("max_time",), horizon=(300.0, 600.0), budget=6000, resumptions=(1, 2), load="heavy"),
                               lambda spec: [TimeFlow()], lambda a, spec, res: a.get("events", 0) >= 2500, classes=classes, n={"quick": 64, "thorough": 600},
                               rule="the lattice run over thousands of events; same monitor")
    return [base, slotted, region, combo, long_run, fuzz_subcheck(base, tier)]
