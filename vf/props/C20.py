"""C20 -- exact arithmetic mode computes event dates as exact decimal sums."""
import copy
import math
from decimal import Decimal
from fractions import Fraction

from .. import observe as O
from .. import strategies as S
from ..runner import SubCheck
from . import common

ID = "C20"
RULE = ("(a) scaled (metamorphic): NetSpecs of ordinary nodes on a decimal grid (all durations, shift boundaries, offsets multiples of 0.1; "
        "schedules, reneging, priorities, blocking, batches, class changes) run with exact=k, k in 10..30, against the same spec with every "
        "duration multiplied by 10 run in ordinary float mode, where all arithmetic is on small integers and therefore exact.  Oracle: "
        "every date / duration field of every record is a Decimal (NaN where not applicable), an exact multiple of 0.1, and equals the "
        "scaled run's field / 10 as a rational number; all other fields are equal -- so events that coincide mathematically coincide "
        "in the simulation.  (b) float-vs-exact: continuous distributions, k in 20..30, same seed: records agree field-wise within 1e-9; "
        "cases whose closest distinct event dates are within 1e-7 are discarded and counted.  Non-trivial: >= 30 records and >= 2 "
        "optional features; (a) additionally >= 1 instant with two coincident events; distinct by digest.  (c) exact_sums: the same "
        "grid profile (more pre-emption) with every distribution wrapped in a logging pass-through: the k-th arrival of a stream is at the "
        "rational partial sum of Decimal(str(sample)); every uninterrupted service lasts exactly its sample; resume / restart / "
        "resample episodes at pre-emptive nodes add up exactly (no tolerance).")
ASSUMPTIONS = ["float arithmetic on integers below 2^53 is exact (the scaled reference run)",
               "observation horizons are multiples of 0.25 so that they are represented exactly in both runs"]
TECHNIQUE = 'metamorphic property-based testing: exact run on a decimal grid vs float run of the integer-scaled spec; rational-arithmetic audit of dates against logged samples (also after a low-precision run in the same process and with near-ties); differential exact vs float run on continuous inputs'
WALL = {"quick": 150, "thorough": 540}

ALLOWED = ["schedule", "sched_preempt", "capacity", "priorities", "prio_preempt", "reneging", "jockeying", "batching", "cc_after", "cc_waiting",
           "discipline", "routing_objects", "process_routing", "self_loops", "inf", "system_capacity", "zero_service", "server_priority",
           "slotted", "slot_capacitated", "zero_servers", "baulking"]
TIME_FIELDS = ("arrival_date", "waiting_time", "service_start_date", "service_time", "service_end_date", "time_blocked", "exit_date")


def scale_dist(d, f):
    if d is None:
        return None
    k = d[0]
    if k == "det":
        return ["det", _mul(d[1], f)]
    if k in ("seq", "emp"):
        return [k, [_mul(v, f) for v in d[1]]]
    if k == "pmf":
        return ["pmf", [_mul(v, f) for v in d[1]], d[2]]
    raise ValueError("unscalable distribution %r" % (d,))


def _mul(v, f):
    return float(round(v * f, 6))


def scale_spec(spec, f=10):
    s = copy.deepcopy(spec)
    s.pop("exact", None)
    for c in s["classes"]:
        for role in ("arrival", "service", "renege"):
            if c.get(role):
                c[role] = [scale_dist(d, f) for d in c[role]]
        if c.get("cct"):
            c["cct"] = {k: scale_dist(d, f) for k, d in c["cct"].items()}
    for nd in s["nodes"]:
        sv = nd["servers"]
        if sv["kind"] == "schedule":
            sv["ends"] = [_mul(x, f) for x in sv["ends"]]
            sv["offset"] = _mul(sv.get("offset", 0.0), f)
        elif sv["kind"] == "slotted":
            sv["slots"] = [_mul(x, f) for x in sv["slots"]]
            sv["offset"] = _mul(sv.get("offset", 0.0), f)
    s["plan"] = {"kind": "max_time", "T": [_mul(t, f) for t in spec["plan"]["T"]]}
    return s


def _records(Q):
    inds = list(Q.nodes[-1].all_individuals)
    for nd in Q.transitive_nodes:
        inds.extend(O.customers(nd))
    inds.sort(key=lambda i: i.id_number)
    return [r for i in inds for r in i.data_records]


def _isnan(x):
    try:
        return math.isnan(x)
    except Exception:
        return False


class Coincidence(O.Monitor):
    def start(self, Q):
        self.n = 0
        self.prev = None

    def after(self, Q, node, etype, nxt):
        if self.prev is not None and self.prev == Q.current_time:
            self.n += 1
        self.prev = Q.current_time


def scaled_execute(spec):
    co = Coincidence()
    re = O.run_case(spec, [co])
    rf = O.run_case(scale_spec(spec, 10), [])
    out = {"violations": [], "nontrivial": False, "classes": [], "aborted": re.aborted or rf.aborted, "budget_hit": re.budget_hit or rf.budget_hit,
           "events": re.n_events + rf.n_events, "activity": {}}
    v = out["violations"]
    if re.aborted:
        v.append({"property": ID, "clause": "C20.exact-run-completes", "site": "|".join(re.aborted), "details": {"trace": (re.abort_trace or "")[-1200:]}})
        return out
    if rf.aborted or re.budget_hit or rf.budget_hit:
        out["classes"] = ["inconclusive"]
        return out
    E, F = _records(re.Q), _records(rf.Q)
    bad_type = bad_grid = None
    for r in E:
        for f in TIME_FIELDS:
            x = getattr(r, f)
            if _isnan(x):
                continue
            if not isinstance(x, Decimal):
                bad_type = bad_type or (r.record_type, f, repr(x), r.node)
            elif (Fraction(x) * 10).denominator != 1:
                bad_grid = bad_grid or (r.record_type, f, repr(x), r.node)
    if bad_type:
        v.append({"property": ID, "clause": "C20.every-date-and-duration-is-a-Decimal", "site": bad_type[1], "details": {"record_type": bad_type[0], "value": bad_type[2], "node": bad_type[3]}})
    if bad_grid:
        v.append({"property": ID, "clause": "C20.dates-are-exact-decimal-sums", "site": bad_grid[1], "details": {"record_type": bad_grid[0], "value": bad_grid[2], "node": bad_grid[3]}})
    if not v:
        diff = None
        if len(E) != len(F):
            diff = ("record-count", len(E), len(F))
        else:
            for a, b in zip(E, F):
                for f in a._fields:
                    x, y = getattr(a, f), getattr(b, f)
                    if f in TIME_FIELDS:
                        if _isnan(x) and _isnan(y):
                            continue
                        if _isnan(x) or _isnan(y) or Fraction(x) * 10 != Fraction(y):
                            diff = (f, repr(x), repr(y), a.id_number, a.node, a.record_type)
                            break
                    else:
                        if not (x == y or (_isnan(x) and _isnan(y))):
                            diff = (f, repr(x), repr(y), a.id_number, a.node, a.record_type)
                            break
                if diff:
                    break
        if diff:
            v.append({"property": ID, "clause": "C20.exact-run-equals-integer-scaled-run", "site": str(diff[0]), "details": {"difference": diff}})
        elif Fraction(re.Q.current_time) * 10 != Fraction(rf.Q.current_time) and not (math.isinf(float(re.Q.current_time)) and math.isinf(float(rf.Q.current_time))):
            v.append({"property": ID, "clause": "C20.exact-run-equals-integer-scaled-run", "site": "final-clock",
                      "details": {"exact": repr(re.Q.current_time), "scaled": repr(rf.Q.current_time)}})
    from .. import build as B
    feats = B.features(spec) - {"multi_node", "multi_class", "exact"}
    out["nontrivial"] = len(E) >= 30 and len(feats) >= 2 and co.n >= 1
    out["activity"] = {"records": len(E), "coincident_instants": co.n, "precision": spec.get("exact")}
    out["classes"] = sorted("f_" + x for x in feats if x in ("schedule", "reneging", "priorities", "capacity", "slotted", "prio_preempt", "sched_preempt"))
    out["score"] = len(E)
    return out


class ExactSums(O.Monitor):
    """Dates are exact decimal sums of the sampled values: with every distribution wrapped in a logging pass-through, the k-th arrival
    of a stream is at the rational partial sum of Decimal(str(sample)); every uninterrupted service lasts exactly its sample; at
    pre-emptive nodes (priorities, schedules, slots) resume / restart / resample episodes add up exactly (shared episodes audit)."""
    name = "exact_sums"
    P = ID

    def __init__(self, spec):
        self.spec = spec
        self.activity = {}

    def finish(self, Q, res):
        if res.aborted:
            return
        from collections import defaultdict
        from ..monitors import episodes
        rep = lambda clause, d: Q.report(self.P, "C20." + clause, "audit", d)
        arr = defaultdict(list)
        for tag, t, ind, v in Q.built.samples:
            if tag[0] == "arr":
                arr[(tag[1], tag[2])].append(v)
        events = defaultdict(list)
        for e in Q.obslog:
            if e[0] == "arrival_event":
                events[(e[2], e[3])].append(e[1])
        n = 0
        for key, evs in events.items():
            tot = Fraction(0)
            for k, t in enumerate(evs):
                if k >= len(arr[key]):
                    break
                x = episodes._exact(arr[key][k])
                if isinstance(x, float):
                    break
                tot += x
                n += 1
                if not isinstance(t, Decimal) or Fraction(t) != tot:
                    rep("arrival-date-is-the-exact-sum-of-samples", {"stream": key, "event": k, "time": repr(t), "exact_sum": str(tot)})
                    break
        self.activity["arrival_events"] = n

        def option_of(nid):
            nd = self.spec["nodes"][nid - 1]
            a, b = nd.get("prio_preempt") or None, nd["servers"].get("preemption") or None
            if nd.get("ps") or (a and b):
                return None
            return a or b or "none"
        episodes.audit(Q, option_of, rep, self.activity, exact=True)


class RecordDates(O.Monitor):
    """Exact mode keeps distinct dates distinct: a customer leaves at its own end of service (or later, when blocked), never at a
    neighbouring date that merely looks equal at some tolerance."""
    name = "record_dates"
    P = ID

    def __init__(self):
        self.activity = {}

    def finish(self, Q, res):
        if res.aborted:
            return
        n = 0
        for r in _records(Q):
            if r.record_type != "service":
                continue
            n += 1
            ok = all(isinstance(getattr(r, f), Decimal) for f in ("service_end_date", "exit_date", "time_blocked"))
            if not ok or r.exit_date - r.service_end_date != r.time_blocked or r.time_blocked < 0:
                Q.report(self.P, "C20.customer-leaves-at-its-own-end-of-service", "audit",
                         {"customer": r.id_number, "node": r.node, "end": repr(r.service_end_date), "exit": repr(r.exit_date), "time_blocked": repr(r.time_blocked)})
                break
        self.activity["service_records"] = n


def history_execute(spec):
    """The same model at a low precision first, then at a high one in the same process: the second run's dates are still exact sums."""
    low = dict(spec, exact=10 + spec["seed"] % 3)
    O.run_case(low, [], obs=False, log=False)
    from ..sysprop import Activity
    act, mon, rd = Activity(), ExactSums(spec), RecordDates()
    res = O.run_case(spec, [act, mon, rd], obs=True, log=True)
    a = dict(act.a)
    a.update(mon.activity)
    return {"violations": list(res.violations), "activity": {k: v for k, v in a.items() if v}, "aborted": res.aborted, "budget_hit": res.budget_hit,
            "events": res.n_events, "nontrivial": a.get("arrival_events", 0) >= 10, "classes": ["low_then_high_precision"], "score": res.n_events}


def floatcmp_execute(spec):
    a = copy.deepcopy(spec)
    a.pop("exact", None)
    rf = O.run_case(a, [])
    re = O.run_case(spec, [])
    out = {"violations": [], "nontrivial": False, "classes": [], "aborted": re.aborted or rf.aborted, "budget_hit": re.budget_hit or rf.budget_hit,
           "events": re.n_events + rf.n_events, "activity": {}}
    v = out["violations"]
    if re.aborted and not rf.aborted:
        v.append({"property": ID, "clause": "C20.exact-run-completes", "site": "|".join(re.aborted), "details": {"trace": (re.abort_trace or "")[-1200:]}})
        return out
    if rf.aborted or re.budget_hit or rf.budget_hit:
        out["classes"] = ["inconclusive"]
        return out
    times = sorted(set(t for t, _, _ in rf.Q.event_trace))
    if any(b - a_ < 1e-7 for a_, b in zip(times, times[1:])):
        out["classes"] = ["discarded_near_tie"]
        return out
    E, F = _records(re.Q), _records(rf.Q)
    diff = None
    if len(E) != len(F):
        diff = ("record-count", len(E), len(F))
    else:
        for x, y in zip(E, F):
            for f in x._fields:
                p, q = getattr(x, f), getattr(y, f)
                if f in TIME_FIELDS:
                    if _isnan(p) and _isnan(q):
                        continue
                    if _isnan(p) or _isnan(q) or not isinstance(p, Decimal) or abs(float(p) - float(q)) > 1e-9 * max(1.0, abs(float(q))):
                        diff = (f, repr(p), repr(q), x.id_number, x.node, x.record_type)
                        break
                elif not (p == q or (_isnan(p) and _isnan(q))):
                    diff = (f, repr(p), repr(q), x.id_number, x.node, x.record_type)
                    break
            if diff:
                break
    if diff:
        v.append({"property": ID, "clause": "C20.exact-run-agrees-with-float-run-up-to-rounding", "site": str(diff[0]), "details": {"difference": diff}})
    from .. import build as B
    feats = B.features(spec) - {"multi_node", "multi_class", "exact"}
    out["nontrivial"] = len(E) >= 30 and len(feats) >= 2
    out["activity"] = {"records": len(E), "precision": spec.get("exact")}
    out["score"] = len(E)
    return out


def subchecks(tier):
    from hypothesis import strategies as st
    w = {"schedule": 0.45, "sched_preempt": 0.4, "capacity": 0.4, "priorities": 0.4, "prio_preempt": 0.2, "reneging": 0.4, "jockeying": 0.3,
         "batching": 0.3, "cc_after": 0.2, "cc_waiting": 0.2, "discipline": 0.2, "routing_objects": 0.3, "process_routing": 0.2,
         "self_loops": 0.4, "inf": 0.15, "system_capacity": 0.1, "zero_service": 0.2, "server_priority": 0.1, "slotted": 0.15,
         "slot_capacitated": 0.4, "zero_servers": 0.05, "baulking": 0.1, "exact": 1.0}
    grid = S.Profile(ALLOWED + ["exact"], weights=w, required=("exact",), numeric="decgrid", max_nodes=3, max_classes=3, plans=("max_time",),
                     horizon=(6.0, 20.0), budget=800, resumptions=(1, 1), load="heavy",
                     excluded=common.EXCL["C20"])
    cont = S.Profile([f for f in ALLOWED if f != "zero_service"] + ["exact"], weights=w, required=("exact",), numeric="cont", max_nodes=3, max_classes=3,
                     plans=("max_time",), horizon=(5.0, 14.0), budget=800, resumptions=(1, 1),
                     excluded=common.EXCL["C20"] + ("floatcmp_precision",))
    from ..sysprop import system_subcheck
    wa = dict(w, priorities=0.6, prio_preempt=0.7, sched_preempt=0.6)
    audit = S.Profile(ALLOWED + ["exact"], weights=wa, required=("exact",), numeric="decgrid", max_nodes=3, max_classes=3, plans=("max_time",),
                      horizon=(6.0, 20.0), budget=800, resumptions=(1, 1), load="heavy", excluded=common.EXCL["C20"])
    exact_sums = system_subcheck("exact_sums", audit, lambda spec: [ExactSums(spec)],
                                 lambda a, spec, res: a.get("arrival_events", 0) >= 10 and a.get("events", 0) >= 40,
                                 classes=lambda a, spec, res: [k for k in ("episodes_checked",) if a.get(k)], obs=True, log=True,
                                 n={"quick": 3600, "thorough": 20000},
                                 rule="exact run on a 0.1 grid with logged samples: arrival dates and (interrupted) service episodes are exact rational sums of Decimal(str(sample))")
    wh = {"exact": 1.0, "schedule": 0.3, "priorities": 0.3, "capacity": 0.3, "batching": 0.2, "self_loops": 0.3, "reneging": 0.2, "discipline": 0.2}
    hist = S.Profile(list(wh), weights=wh, required=("exact",), numeric="grid", max_nodes=2, max_classes=2, plans=("max_time",), horizon=(4.0, 10.0),
                     budget=500, resumptions=(1, 1), long_digits=0.5, excluded=common.EXCL["C20"])

    def hist_filter(spec):
        spec = copy.deepcopy(spec)
        spec["exact"] = 24 + spec["seed"] % 7
        return spec
    precision_history = SubCheck("precision_history", lambda spec: history_execute(hist_filter(spec)), strategy=S.netspec(hist),
                                 n={"quick": 2400, "thorough": 15000}, kind="system",
                                 rule="16-17 digit constants; the model is run at exact=10..12 and then, in the same process, at exact=24..30 with the exact_sums audit: "
                                      "what an earlier simulation at another precision left behind must not leak into the dates")
    wn = {"exact": 1.0, "priorities": 0.3, "capacity": 0.3, "batching": 0.3, "self_loops": 0.3, "discipline": 0.3, "routing_objects": 0.2, "schedule": 0.2}
    near = S.Profile(list(wn), weights=wn, required=("exact",), numeric="jitter", max_nodes=2, max_classes=2, plans=("max_time",), horizon=(4.0, 12.0),
                     budget=600, resumptions=(1, 1), load="heavy", excluded=common.EXCL["C20"] + ("floatcmp_precision",))
    near_ties = system_subcheck("near_ties", near, lambda spec: [ExactSums(spec), RecordDates()],
                                lambda a, spec, res: a.get("service_records", 0) >= 10, obs=True, log=True, n={"quick": 2400, "thorough": 15000},
                                rule="grid times with 1e-13-scale jitter in exact mode (k >= 20): dates 1e-13 apart are different dates; exact_sums audit + "
                                     "every customer leaves at its own end of service")
    return [
        precision_history, near_ties,
        exact_sums,
        SubCheck("scaled", scaled_execute, strategy=S.netspec(grid), n={"quick": 4800, "thorough": 30000}, kind="metamorphic",
                 rule="exact run on a 0.1 grid vs float run of the x10-scaled (integer) spec"),
        SubCheck("floatcmp", floatcmp_execute, strategy=S.netspec(cont), n={"quick": 3600, "thorough": 20000}, kind="differential",
                 rule="exact (k >= 20) vs float run of the same continuous spec and seed, tolerance 1e-9, near-ties discarded"),
    ]
