"""Independent reference simulator for the deterministic core of Ciw (second oracle for C05 / C07 / C08, also C06 / C10).

Scope: open network, fixed integer servers, FIFO / LIFO, non-pre-emptive priorities, finite queue capacities with rejection of
external arrivals and Type I blocking (longest-blocked-first release), scripted (process-based) routes chosen by customer id,
Sequential external arrival streams, service times that are a pure function of (customer id, number of records so far) --
so the trajectory does not depend on random numbers or on draw order, as long as no two events coincide.
Written from the documentation of the blocking mechanism and the property statements, not from node.py.
"""
INF = float("inf")


class Cust(object):
    def __init__(self, cid, cls, prio, route):
        self.id = cid
        self.cls = cls
        self.prio = prio
        self.route = list(route)
        self.nrec = 0
        self.arrival = None
        self.start = None
        self.end = None
        self.dest = None
        self.blocked = False


class RNode(object):
    def __init__(self, nid, c, qcap, discipline):
        self.id = nid
        self.c = c
        self.cap = INF if qcap == "inf" else c + qcap
        self.discipline = discipline
        self.servers = [None] * c            # customer or None
        self.queue = []                      # waiting customers in arrival order
        self.blocked_queue = []              # (source node, customer) in blocking order

    def pop(self):
        return len(self.queue) + sum(1 for s in self.servers if s is not None)


def simulate(spec, T):
    """Returns (records, rejections): records = [(id, node, arrival, start, end, exit, destination)] sorted."""
    nodes = [None] + [RNode(i + 1, nd["servers"]["c"], nd.get("cap", "inf"), nd.get("discipline", "FIFO")) for i, nd in enumerate(spec["nodes"])]
    classes = sorted(spec["classes"], key=lambda c: c["name"])
    tables = {c["name"]: [s[1] for s in c["service"]] for c in classes}      # ["keyed", table] per node
    # external arrival streams: next date and position in the sequence.  Ciw creates ids in event order.
    streams = []
    for c in classes:
        for i, a in enumerate(c["arrival"]):
            if a is not None:
                seq = a[1]
                streams.append({"cls": c, "node": i + 1, "seq": seq, "k": 1, "date": seq[0]})
    records, rejections = [], []
    completions = []        # (time, node id, server index)
    created = [0]
    now = [0.0]

    def service_time(cu, nid):
        table = tables[cu.cls][nid - 1]
        return table[(cu.id * 7 + 3 * cu.nrec) % len(table)]

    def start_service(nd, cu, si):
        nd.servers[si] = cu
        cu.start = now[0]
        cu.end = now[0] + service_time(cu, nd.id)
        completions.append((cu.end, nd.id, si))

    def choose(nd):
        if not nd.queue:
            return None
        best = min(c.prio for c in nd.queue)
        cands = [c for c in nd.queue if c.prio == best]
        return cands[0] if nd.discipline == "FIFO" else cands[-1]

    def join(nd, cu):
        cu.arrival = now[0]
        cu.start = cu.end = None
        cu.blocked = False
        nd.queue.append(cu)
        free = [i for i, s in enumerate(nd.servers) if s is None]
        if free:
            ch = choose(nd)
            nd.queue.remove(ch)
            start_service(nd, ch, free[0])

    def release(nd, si, cu, dest):
        """cu leaves nd (server si) towards dest (RNode or None = exit) at the current instant."""
        nd.servers[si] = None
        records.append((cu.id, nd.id, cu.arrival, cu.start, cu.end, now[0], dest.id if dest is not None else -1))
        cu.nrec += 1
        ch = choose(nd)
        if ch is not None:
            nd.queue.remove(ch)
            start_service(nd, ch, si)
        if dest is not None:
            join(dest, cu)
        unblock(nd)

    def unblock(nd):
        if nd.blocked_queue and nd.pop() < nd.cap:
            src, cu = nd.blocked_queue.pop(0)
            si = [i for i, s in enumerate(src.servers) if s is cu][0]
            release(src, si, cu, nd)

    while True:
        # next event
        t_arr = min((s["date"] for s in streams), default=INF)
        t_cmp = min((c[0] for c in completions), default=INF)
        t = min(t_arr, t_cmp)
        if not (t < T):
            break
        if sum(1 for s in streams if s["date"] == t) + sum(1 for c in completions if c[0] == t) > 1:
            return None, None          # two events at one instant: the order is Ciw's random choice, outside this oracle
        now[0] = t
        if t_cmp <= t_arr:
            ev = min(completions)
            completions.remove(ev)
            _, nid, si = ev
            nd = nodes[nid]
            cu = nd.servers[si]
            dest_id = cu.route.pop(0) if cu.route else -1
            dest = nodes[dest_id] if dest_id != -1 else None
            if dest is None or dest.pop() < dest.cap:
                release(nd, si, cu, dest)
            else:
                cu.blocked = True
                cu.dest = dest_id
                dest.blocked_queue.append((nd, cu))
        else:
            s = [x for x in streams if x["date"] == t][0]
            created[0] += 1
            c = s["cls"]
            routes = c["routing"]["routes"]
            cu = Cust(created[0], c["name"], c.get("priority", 0), routes[created[0] % len(routes)])
            nd = nodes[s["node"]]
            if nd.pop() >= nd.cap:
                rejections.append((cu.id, nd.id, t, nd.pop()))
            else:
                join(nd, cu)
            s["date"] = s["date"] + s["seq"][s["k"] % len(s["seq"])]
            s["k"] += 1
    return sorted(records), sorted(rejections)
