"""Known-finding exclusion predicates (DESIGN 3.3).  Each is as narrow as the root cause allows; every application is
counted in evidence (class 'excluded:<name>').  The pinned replay of each finding is still run on every check."""
import copy


def _has_preemption(nd):
    s = nd["servers"]
    return bool(nd.get("prio_preempt")) or bool(s.get("preemption"))


def x_preempt_blocked(spec):
    """F6: pre-empting (by priority, shift end or capacitated slot) a customer that is blocked.  Excluded by removing
    finite capacities from networks that contain a pre-empting node."""
    if any(_has_preemption(nd) for nd in spec["nodes"]) and any(nd.get("cap", "inf") != "inf" for nd in spec["nodes"]):
        for nd in spec["nodes"]:
            nd["cap"] = "inf"
        return True
    return False


EXCLUSIONS = {
    "preempt_blocked": x_preempt_blocked,
}


def apply_exclusions(spec, names):
    done = []
    for n in names:
        if EXCLUSIONS[n](spec):
            done.append(n)
    if done:
        spec["_excluded"] = done
    return spec
