"""Known-finding exclusion predicates (DESIGN 3.3).  Each is as narrow as the root cause allows; every application is
counted in evidence (class 'excluded:<name>').  The pinned replay of each finding is still run on every check."""
import copy


def _has_preemption(nd):
    s = nd["servers"]
    return bool(nd.get("prio_preempt")) or bool(s.get("preemption"))


def x_preempt_blocked(spec):
    """F6: pre-empting (by priority, shift end or capacitated slot) a customer that is blocked.  Excluded by removing
    finite capacities from networks that contain a pre-empting node."""
    if any(_has_preemption(nd) for nd in spec["nodes"]) and any(nd.get("cap", "inf") != "inf" for nd in spec["nodes"]):
        for nd in spec["nodes"]:
            nd["cap"] = "inf"
        return True
    return False


def x_preempt_renege(spec):
    """F5: a customer displaced by a pre-emptive priority keeps the reneging date of its arrival; if that date has passed
    a renege event is scheduled in the past.  Excluded by dropping reneging distributions at pre-emptive-priority nodes."""
    hit = False
    for i, nd in enumerate(spec["nodes"]):
        if nd.get("prio_preempt"):
            for c in spec["classes"]:
                if c.get("renege") and c["renege"][i] is not None:
                    c["renege"][i] = None
                    hit = True
    for c in spec["classes"]:
        if c.get("renege") is not None and not any(c["renege"]):
            del c["renege"]
    return hit


def x_exact_low_precision(spec):
    """F23: with exact=k smaller than the number of digits of the samples, sums are rounded to k digits but `now` is not:
    a zero/short service can end before it started.  Excluded by raising k to 20 (no rounding of 17-digit float samples)."""
    if spec.get("exact") and spec["exact"] < 20:
        spec["exact"] = 20
        return True
    return False


EXCLUSIONS = {
    "preempt_renege": x_preempt_renege,
    "exact_low_precision": x_exact_low_precision,
    "preempt_blocked": x_preempt_blocked,
}


def apply_exclusions(spec, names):
    done = []
    for n in names:
        if EXCLUSIONS[n](spec):
            done.append(n)
    if done:
        spec["_excluded"] = done
    return spec
