"""Known-finding exclusion predicates (DESIGN 3.3).  Each is as narrow as the root cause allows; every application is
counted in evidence (class 'excluded:<name>').  The pinned replay of each finding is still run on every check."""
import copy


def _has_sched_preemption(nd):
    return bool(nd["servers"].get("preemption"))


def x_sched_preempt_blocked(spec):
    """F6c: a pre-emptive shift end (or capacitated pre-emptive slot) interrupting a customer that is *blocked*: with 'resume' its
    remaining time is negative (service end in the past), the restored end date can exceed the exit date, number_in_service is
    decremented twice and the blocking trackers are not told that the customer was un-blocked.  Excluded by removing finite
    capacities from networks that contain a node with a pre-emptive schedule / slots.  (Pre-emptive *priorities* no longer need
    this: fixed, F6a/b.)"""
    if any(_has_sched_preemption(nd) for nd in spec["nodes"]) and any(nd.get("cap", "inf") != "inf" for nd in spec["nodes"]):
        for nd in spec["nodes"]:
            nd["cap"] = "inf"
        return True
    return False


def x_preempt_renege(spec):
    """F5: a customer displaced by a pre-emptive priority keeps the reneging date of its arrival; if that date has passed
    a renege event is scheduled in the past.  Excluded by dropping reneging distributions at pre-emptive-priority nodes."""
    hit = False
    for i, nd in enumerate(spec["nodes"]):
        if nd.get("prio_preempt"):
            for c in spec["classes"]:
                if c.get("renege") and c["renege"][i] is not None:
                    c["renege"][i] = None
                    hit = True
    for c in spec["classes"]:
        if c.get("renege") is not None and not any(c["renege"]):
            del c["renege"]
    return hit


def x_exact_low_precision(spec):
    """Generator precondition of C20's float-vs-exact comparison (not a finding any more; F23 is fixed): with exact=k below the ~17
    digits of a float sample every sum is rounded to k digits, so the exact run may differ from the float run by far more than the
    1e-9 tolerance (and near-ties may be re-ordered).  The comparison is made at k >= 20."""
    if spec.get("exact") and spec["exact"] < 20:
        spec["exact"] = 20
        return True
    return False


def possible_dests(spec, cname, i):
    """Node ids (1-based) a customer of class `cname` may be routed to after service at node i (1-based); conservative."""
    c = [x for x in spec["classes"] if x["name"] == cname][0]
    r = c["routing"]
    n = len(spec["nodes"])
    if r["kind"] == "matrix":
        return set(j + 1 for j in range(n) if r["rows"][i - 1][j] > 0)
    if r["kind"] == "network":
        x = r["routers"][i - 1]
        if x["r"] == "direct":
            return {x["to"]} - {-1}
        if x["r"] == "leave":
            return set()
        if x["r"] == "prob":
            return set(d for d, p in zip(x["dests"], x["probs"]) if p > 0)
        if x["r"] in ("jsq", "lb"):
            return set(x["dests"])
        return set(x["cycle"]) - {-1}
    out = set()
    for route in r["routes"]:
        for step in route:
            out |= set(step) if isinstance(step, list) else {step}
    return out


def x_sched_reroute_self(spec):
    """F7: a pre-emptive schedule with preemption='reroute' whose rerouting can lead back to the same node re-attaches the
    customer to a server that is deleted a moment later.  Excluded by turning 'reroute' into 'resample' at such nodes."""
    hit = False
    for i, nd in enumerate(spec["nodes"]):
        if nd["servers"].get("preemption") == "reroute":
            if any((i + 1) in possible_dests(spec, c["name"], i + 1) for c in spec["classes"]):
                nd["servers"]["preemption"] = "resample"
                hit = True
    return hit


def x_jockey_capacity(spec):
    """F24: a reneging customer that jockeys to another node is accepted there even when that node is full.  Excluded by
    removing capacitated nodes from jockeying destinations (their probability goes to the exit)."""
    hit = False
    for c in spec["classes"]:
        r = c["routing"]
        if r["kind"] != "network":
            continue
        for x in r["routers"]:
            j = x.get("jockey")
            if not j:
                continue
            nd_, np_, lost = [], [], 0.0
            for d, p in zip(j["dests"], j["probs"]):
                if d != -1 and spec["nodes"][d - 1].get("cap", "inf") != "inf":
                    lost += p
                    hit = hit or p > 0
                else:
                    nd_.append(d)
                    np_.append(p)
            if -1 in nd_:
                np_[nd_.index(-1)] += lost
            else:
                nd_.append(-1)
                np_.append(lost)
            x["jockey"] = {"dests": nd_, "probs": np_}
    return hit


def x_preempt_overtime(spec):
    """F8: pre-emptive priorities at a node with a non-pre-emptive schedule can choose a victim on an off-duty (overtime)
    server; the server is deleted when detached and the pre-emptor is then attached to the deleted server, where it is
    stuck while servers idle.  Excluded by dropping pre-emptive priorities at such nodes."""
    hit = False
    for nd in spec["nodes"]:
        if nd.get("prio_preempt") and nd["servers"]["kind"] == "schedule" and not nd["servers"].get("preemption"):
            del nd["prio_preempt"]
            hit = True
    return hit


def x_ps_priorities(spec):
    """F25: a capacity-limited processor-sharing node picks the next customer to admit by its index in the
    priority-flattened list, which with several priority classes can be a customer already in service (re-sampled) while
    the waiting one is skipped.  Excluded by giving such PS nodes unlimited sharing capacity."""
    hit = False
    if len(set(c.get("priority", 0) for c in spec["classes"])) > 1:
        for nd in spec["nodes"]:
            if nd.get("ps") and nd["servers"]["kind"] != "inf":
                nd["servers"] = {"kind": "inf"}
                hit = True
    return hit


def x_pause_busy_time_priority(spec):
    """F16 (consequence): stopping a run adds the in-progress service to Server.busy_time for good, so a server-priority
    function that reads busy_time chooses differently after a pause and the records change.  Excluded (C16 only) by
    replacing that server-priority function."""
    hit = False
    if not any(n.get("prio_preempt") or n["servers"].get("preemption") for n in spec["nodes"]):
        return False        # since F16a/b were repaired only interrupted services (F33) make busy_time depend on pauses
    for nd in spec["nodes"]:
        if nd.get("server_priority") == "busy_time":
            nd["server_priority"] = "id_desc"
            hit = True
    return hit


def p_busy_at_pause(case, v):
    """F16a applies only when some server was busy at a pause instant."""
    return (v.get("details") or {}).get("in_service_at_pause", 0) > 0


def p_paused(case, v):
    """F16b applies to any run that was stopped at least once before the final horizon."""
    return (v.get("details") or {}).get("pauses", 0) > 0


def x_reuse_stateful(spec):
    """F15b/c (C15 only): reneging and class-change-time distributions and router objects are not copied per Simulation, so a
    Sequential one (or a Cycle router) continues where the previous simulation on the same Network stopped.  Excluded by making
    those components stateless."""
    hit = False

    def fix(d):
        nonlocal hit
        if d is not None and d[0] == "seq":
            hit = True
            return ["emp", d[1]]
        return d
    for c in spec["classes"]:
        if c.get("renege"):
            c["renege"] = [fix(d) for d in c["renege"]]
        if c.get("cct"):
            c["cct"] = {k: fix(d) for k, d in c["cct"].items()}
        r = c["routing"]
        if r["kind"] == "network":
            for x in r["routers"]:
                if x["r"] == "cycle":
                    to = x["cycle"][0]
                    keep = {k: v for k, v in x.items() if k in ("jockey", "reroute_to")}
                    x.clear()
                    x.update({"r": "leave"} if to == -1 else {"r": "direct", "to": to})
                    x.update(keep)
                    hit = True
    return hit


def p_reuse_stateful(case, v):
    """F15b/c apply only to specs that still contain a Sequential reneging / class-change-time distribution or a Cycle router."""
    import copy
    spec = copy.deepcopy(case.get("spec", case))
    return x_reuse_stateful(spec)


def p_nondyadic_timetable(case, v):
    """F28 applies only when some schedule / slot boundary or offset is not a multiple of 0.5 (i.e. not exact in binary)."""
    for nd in case.get("nodes", []):
        sv = nd["servers"]
        vals = list(sv.get("ends", [])) + list(sv.get("slots", [])) + [sv.get("offset", 0.0)]
        if any((x * 2) != int(x * 2) for x in vals):
            return True
    return False


def p_sched_preempt_blocked(case, v):
    """F6c applies only to networks with a pre-emptive schedule / slots and some finite queue capacity."""
    import copy
    return x_sched_preempt_blocked(copy.deepcopy(case)) if isinstance(case, dict) and "nodes" in case else False


def x_sched_reroute_blocked(spec):
    """F6d: a schedule with preemption='reroute' (or capacitated pre-emptive slots) interrupting a *blocked* customer sends it
    elsewhere while it stays queued in its old destination's blocked queue.  Excluded by removing the finite capacities of the
    nodes such a node can send customers to."""
    def bad(nd):
        sv = nd["servers"]
        return (sv["kind"] == "schedule" and sv.get("preemption") == "reroute") or (sv["kind"] == "slotted" and sv.get("preemption"))
    hit = False
    for i, nd in enumerate(spec["nodes"]):
        if not bad(nd):
            continue
        # only a customer *at* such a node can be the blocked victim: its possible destinations get infinite capacity; other nodes
        # (e.g. an upstream node blocked towards this one) keep theirs
        dests = set()
        for c in spec["classes"]:
            dests |= set(possible_dests(spec, c["name"], i + 1))
        for d in dests:
            if 1 <= d <= len(spec["nodes"]) and spec["nodes"][d - 1].get("cap", "inf") != "inf":
                spec["nodes"][d - 1]["cap"] = "inf"
                hit = True
    return hit


def x_sched_preempt_blocked_cc(spec):
    """F6g: pre-emptive schedule (resume / restart / resample) + finite capacities + class-change matrices + several priority classes:
    a customer re-served after being interrupted while blocked changes class twice at one node.  Excluded by dropping the class-change
    matrices of such networks."""
    if (any(nd["servers"]["kind"] == "schedule" and nd["servers"].get("preemption") for nd in spec["nodes"])
            and any(nd.get("cap", "inf") != "inf" for nd in spec["nodes"]) and any(nd.get("ccm") for nd in spec["nodes"])
            and len(set(c.get("priority", 0) for c in spec["classes"])) > 1):
        for nd in spec["nodes"]:
            nd.pop("ccm", None)
        return True
    return False


def p_sched_preempt_blocked_cc(case, v):
    import copy
    return x_sched_preempt_blocked_cc(copy.deepcopy(case)) if isinstance(case, dict) and "nodes" in case else False


def x_matrix_sched_preempt_blocked(spec):
    """F6h: MatrixBlocking can only remove the *first* blockage rank of a (node, destination) cell.  When a pre-emptive shift end has
    interrupted several blocked customers and servers return, they are taken back into service in priority/arrival order, which need
    not be blocking order, and the wrong rank is removed.  Excluded (MatrixBlocking only) by removing finite capacities from networks
    with a pre-emptive schedule."""
    t = spec.get("tracker") or {}
    if t.get("kind") == "MatrixBlocking" and any(nd["servers"].get("preemption") for nd in spec["nodes"]) \
            and any(nd.get("cap", "inf") != "inf" for nd in spec["nodes"]):
        for nd in spec["nodes"]:
            nd["cap"] = "inf"
        return True
    return False


def p_matrix_sched_preempt_blocked(case, v):
    import copy
    return x_matrix_sched_preempt_blocked(copy.deepcopy(case)) if isinstance(case, dict) and "nodes" in case else False


def x_cc_preempt_after_restart(spec):
    """F32: after a pre-emptive shift change interrupted customers are restarted before fresh ones whatever their priority, so at a node
    that also has pre-emptive priorities better-priority customers can be left waiting; a later class change while waiting then lets the
    *changing* customer pre-empt and start service ahead of earlier arrivals of its new class.  Excluded by dropping class changes while
    waiting from networks with a node that has both pre-emptive priorities and a pre-emptive schedule."""
    if any(nd.get("prio_preempt") and nd["servers"].get("preemption") for nd in spec["nodes"]) and any(c.get("cct") for c in spec["classes"]):
        for c in spec["classes"]:
            c.pop("cct", None)
        return True
    return False


def p_cc_preempt_after_restart(case, v):
    import copy
    return x_cc_preempt_after_restart(copy.deepcopy(case)) if isinstance(case, dict) and "nodes" in case else False


def p_has_preemption(case, v):
    """F33 applies only to networks with some kind of pre-emption (priority, schedule or slot)."""
    return any(nd.get("prio_preempt") or nd["servers"].get("preemption") for nd in case.get("nodes", []))


EXCLUSIONS = {
    "cc_preempt_after_restart": x_cc_preempt_after_restart,
    "matrix_sched_preempt_blocked": x_matrix_sched_preempt_blocked,
    "sched_preempt_blocked_cc": x_sched_preempt_blocked_cc,
    "sched_reroute_blocked": x_sched_reroute_blocked,
    "reuse_stateful": x_reuse_stateful,
    "pause_busy_time_priority": x_pause_busy_time_priority,
    "ps_priorities": x_ps_priorities,
    "preempt_overtime": x_preempt_overtime,
    "sched_reroute_self": x_sched_reroute_self,
    "jockey_capacity": x_jockey_capacity,
    "preempt_renege": x_preempt_renege,
    "exact_low_precision": x_exact_low_precision,
    "floatcmp_precision": x_exact_low_precision,
    "sched_preempt_blocked": x_sched_preempt_blocked,
}


def apply_exclusions(spec, names):
    done = []
    for n in names:
        if EXCLUSIONS[n](spec):
            done.append(n)
    if done:
        spec["_excluded"] = done
    return spec
