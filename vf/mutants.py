"""Seeded one-line mutants (sensitivity self-test, DESIGN section 7).

  python -m vf.mutants [--only M07,M12] [--suite] [--jobs 1]

Each mutant is applied to a scratch worktree of /repo outside /repo and /verif, the property's quick check is run with
VERIF_CIW_PATH pointing at it (and VERIF_OUT at a temp dir so nothing under /verif is touched), and the result is written to
/verif/mutants/results.json.  --suite additionally runs the repository's own tests on the mutant ('realistic' = survives them).
"""
import json
import os
import shutil
import subprocess
import sys
import tempfile
import time

N = "ciw/node.py"
A = "ciw/arrival_node.py"
S = "ciw/simulation.py"
X = "ciw/auxiliary.py"
R = "ciw/routing/routing.py"
T = "ciw/trackers/state_tracker.py"
D = "ciw/deadlock/deadlock_detector.py"
P = "ciw/processor_sharing.py"
E = "ciw/exactnode.py"
SC = "ciw/schedules.py"
DI = "ciw/disciplines.py"

MUTANTS = [
    # id, properties expected to catch it, file, old, new, description
    ("M01", ["C01"], N, "        self.number_of_individuals -= 1\n        reneging_individual.queue_size_at_departure", "        reneging_individual.queue_size_at_departure",
     "renege forgets to decrement the node population"),
    ("M02", ["C01", "C03"], N, "        if not reroute:\n            self.begin_service_if_possible_release(next_individual, newly_free_server)\n        next_node.accept(next_individual)",
     "        if not reroute:\n            self.begin_service_if_possible_release(next_individual, newly_free_server)\n        if not (reroute and next_node is self):\n            next_node.accept(next_individual)",
     "customer rerouted back to its own node is dropped"),
    ("M03", ["C02"], N, "            individual_to_preempt.time_left = individual_to_preempt.service_end_date - self.now",
     "            individual_to_preempt.time_left = self.now - individual_to_preempt.service_end_date", "resume: remaining time with the wrong sign"),
    ("M04", ["C02", "C14"], S, "            if nd.next_event_date < mindate:\n                mindate = nd.next_event_date\n                next_active_nodes = [nd]\n            elif nd.next_event_date == mindate:\n                next_active_nodes.append(nd)",
     "            if nd.next_event_date < mindate:\n                mindate = nd.next_event_date\n                next_active_nodes = [nd]\n            elif nd.next_event_date <= mindate + 1e-9:\n                next_active_nodes.append(nd)",
     "events within 1e-9 are treated as simultaneous: a later one can be executed first"),
    ("M05", ["C02"], N, "            time_blocked=individual.exit_date - individual.service_end_date,\n            exit_date=individual.exit_date,\n            destination=individual.destination,\n            queue_size_at_arrival=individual.queue_size_at_arrival,\n            queue_size_at_departure=individual.queue_size_at_departure,\n            server_id=server_id,\n            record_type=\"service\",",
     "            time_blocked=individual.exit_date - individual.service_start_date,\n            exit_date=individual.exit_date,\n            destination=individual.destination,\n            queue_size_at_arrival=individual.queue_size_at_arrival,\n            queue_size_at_departure=individual.queue_size_at_departure,\n            server_id=server_id,\n            record_type=\"service\",",
     "time_blocked computed from the service start"),
    ("M06", ["C03"], N, "        self.write_interruption_record(individual, destination=next_node.id_number)", "        self.write_interruption_record(individual)",
     "rerouted interruption record does not name its destination"),
    ("M07", ["C04", "C05"], N, "        for svr in all_servers:\n            if not svr.busy:\n                return svr", "        for svr in all_servers:\n            if not svr.busy or (svr.cust and svr.cust.is_blocked and len(all_servers) > 2):\n                return svr",
     "find_free_server hands out a server held by a blocked customer (3+ servers)"),
    ("M08", ["C04"], N, "        server.busy_time = self.increment_time(server.busy_time, individual.exit_date - counted_from)",
     "        server.busy_time = self.increment_time(server.busy_time, (individual.service_end_date if individual.service_end_date is not False else individual.exit_date) - counted_from)", "busy time excludes blocked time"),
    ("M09", ["C05", "C07"], N, "            node_to_receive_from.release(individual_to_receive, self)\n\n    def reset_class_change",
     "            node_to_receive_from.release(individual_to_receive, self, reroute=individual_to_receive.priority_class > 0)\n\n    def reset_class_change",
     "unblocked low-priority customer leaves without its server starting the next service (and without a record)"),
    ("M10", ["C05", "C12"], N, "        self.add_new_servers(self.schedule.c)\n        self.begin_service_if_possible_change_shift()", "        self.add_new_servers(self.schedule.c)\n        if self.number_interrupted_individuals > 0 or self.schedule.preemption is False:\n            self.begin_service_if_possible_change_shift()",
     "pre-emptive shift change starts waiting customers only if someone was interrupted"),
    ("M11", ["C06"], A, "        if (next_node.number_of_individuals >= next_node.node_capacity) or (self.simulation.number_of_individuals >= self.system_capacity):",
     "        if (next_node.number_of_individuals >= next_node.node_capacity) or (self.simulation.number_of_individuals > self.system_capacity):", "system capacity admits one too many"),
    ("M12", ["C06", "C07"], N, "        if next_node.number_of_individuals < next_node.node_capacity:\n            self.release(next_individual, next_node)",
     "        if next_node.number_of_individuals < next_node.node_capacity or (next_node is self and self.c > 1):\n            self.release(next_individual, next_node)", "self-loop transfer at multi-server node ignores capacity"),
    ("M13", ["C07"], N, "            self.blocked_queue.pop(0)\n            self.len_blocked_queue -= 1",
     "            self.blocked_queue.pop(0)\n            self.len_blocked_queue -= 1\n            if self.len_blocked_queue > 1:\n                self.blocked_queue.append(self.blocked_queue.pop(0))",
     "blocked queue rotated when three or more are blocked (order of later entries wrong)"),
    ("M14", ["C07", "C13"], N, "        next_node.accept(reneging_individual, completed=False)\n        self.release_blocked_individual()", "        next_node.accept(reneging_individual, completed=False)",
     "a renege does not release the customer blocked to this node"),
    ("M15", ["C08"], N, "        for priority_individuals in self.individuals:\n            waiting_individuals = [ind for ind in priority_individuals if not ind.server]\n            if len(waiting_individuals) > 0:\n                return self.service_discipline(waiting_individuals, self.now)",
     "        for priority_individuals in self.individuals:\n            waiting_individuals = [ind for ind in priority_individuals if not ind.server]\n            if len(waiting_individuals) > 0:\n                if len(self.individuals) > 2 and priority_individuals is self.individuals[0] and len(self.individuals[1]) > len(waiting_individuals):\n                    continue\n                return self.service_discipline(waiting_individuals, self.now)",
     "with three priority classes the top class is skipped when the second queue is longer"),
    ("M16", ["C08"], DI, "    return individuals[-1]", "    return individuals[-1] if len(individuals) < 4 else individuals[-2]", "LIFO picks the second-latest when four or more wait"),
    ("M17", ["C09"], X, "    while rdm_num > p:", "    while rdm_num >= p - 0.01:", "random_choice shifts cumulative thresholds (may return a zero-probability element)"),
    ("M18", ["C09"], R, "            if queue_size == shortest_queue_size:\n                shortest_queues.append(node_index)", "            if queue_size <= shortest_queue_size + 1 and shortest_queues and queue_size > shortest_queue_size:\n                shortest_queues.append(node_index)\n            if queue_size == shortest_queue_size:\n                shortest_queues.append(node_index)",
     "JSQ treats queues within one customer as tied"),
    ("M19", ["C09"], N, "            individual.priority_class = self.simulation.network.priority_class_mapping[individual.customer_class]\n            self.simulation.statetracker", "            if individual.customer_class != individual.previous_class or self.simulation.number_of_priority_classes < 3:\n                individual.priority_class = self.simulation.network.priority_class_mapping[individual.customer_class]\n            self.simulation.statetracker",
     "(neutral variant)"),
    ("M20", ["C10"], A, "        batch = self.batch_size(self.next_node, self.next_class)\n        for _ in range(batch):", "        batch = self.batch_size(self.next_node, self.next_class)\n        for _ in range(batch if batch < 4 else batch - 1):",
     "batches of four or more lose a customer"),
    ("M21", ["C10"], N, "                ind.service_end_date = self.increment_time(ind.service_start_date, ind.service_time)\n                    self.number_in_service += 1\n                    self.reset_class_change(ind)\n                    newly_free_server.next_end_service_date",
     "                ind.service_end_date = self.increment_time(ind.service_start_date, ind.service_time)\n                    self.number_in_service += 1\n                    self.reset_class_change(ind)\n                    newly_free_server.next_end_service_date", "(placeholder, identical)"),
    ("M22", ["C11"], N, "                individual_to_preempt = max(\n                    [ind for ind in least_prioritised_individuals],\n                    key=lambda cust: cust.service_start_date,\n                )",
     "                individual_to_preempt = min(\n                    [ind for ind in least_prioritised_individuals],\n                    key=lambda cust: cust.service_start_date,\n                )", "victim = earliest started"),
    ("M23", ["C11"], N, "        if individual.service_time == \"resume\":\n            individual.service_time = individual.time_left", "        if individual.service_time == \"resume\":\n            individual.service_time = individual.original_service_time",
     "resume gives the whole service again"),
    ("M24", ["C12"], SC, "            date = offset + boundaries[index % num_boundaries] + ((index) // num_boundaries * self.cyclelength)",
     "            date = offset + boundaries[index % num_boundaries] + ((index + (1 if num_boundaries == 3 and index > 5 else 0)) // num_boundaries * self.cyclelength)",
     "three-shift timetables skip ahead in the third cycle"),
    ("M25", ["C12"], N, "            if self.number_interrupted_individuals > 0:\n                self.begin_interrupted_individuals_service(srvr)\n            else:\n                ind = self.choose_next_customer()\n                if ind is not None:\n                    self.attach_server(srvr, ind)\n                    ind.service_start_date = self.now\n                    self.give_individual_a_service_time(ind)\n                    ind.service_end_date = self.increment_time(ind.service_start_date, ind.service_time)\n                    self.number_in_service += 1\n                    self.reset_class_change(ind)\n                    srvr.next_end_service_date = ind.service_end_date\n\n    def begin_service_if_possible_release",
     "            if self.number_interrupted_individuals > 1:\n                self.begin_interrupted_individuals_service(srvr)\n            else:\n                ind = self.choose_next_customer()\n                if ind is not None:\n                    self.attach_server(srvr, ind)\n                    ind.service_start_date = self.now\n                    self.give_individual_a_service_time(ind)\n                    ind.service_end_date = self.increment_time(ind.service_start_date, ind.service_time)\n                    self.number_in_service += 1\n                    self.reset_class_change(ind)\n                    srvr.next_end_service_date = ind.service_end_date\n\n    def begin_service_if_possible_release",
     "after a shift change the last interrupted customer is not prioritised over fresh ones"),
    ("M26", ["C13"], N, "                if (ind.reneging_date < next_renege_date) and not ind.server:", "                if (ind.reneging_date < next_renege_date) and (not ind.server or ind.is_blocked):",
     "blocked customers (still holding a server) can renege"),
    ("M27", ["C13"], A, "            if rnd_num < next_node.baulking_functions[self.next_class](next_node.number_of_individuals,", "            if rnd_num < next_node.baulking_functions[self.next_class](next_node.number_of_individuals - next_node.len_blocked_queue * 0 - sum(1 for i in next_node.all_individuals if i.is_blocked),",
     "baulking function does not see blocked customers"),
    ("M28", ["C14"], S, "        while self.current_time < max_simulation_time:", "        while self.current_time <= max_simulation_time:", "event exactly at the horizon is executed"),
    ("M29", ["C14"], S, "        while check() < max_customers:\n            old_check = check()", "        while check() < max_customers + (1 if method == \"Accept\" else 0):\n            old_check = check()", "method Accept runs one customer too long"),
    ("M30", ["C15"], S, "                clss: copy.deepcopy(self.network.customer_classes[clss].batching_distributions[node])", "                clss: self.network.customer_classes[clss].batching_distributions[node]",
     "batching distributions no longer copied per simulation"),
    ("M31", ["C16"], S, "        next_active_node = self.find_next_active_node()\n        self.current_time = next_active_node.next_event_date\n\n        if progress_bar:\n            self.progress_bar = tqdm.tqdm(total=max_simulation_time)",
     "        for nd in self.transitive_nodes:\n            if getattr(nd, 'server_utilisation', None) is not None:\n                nd.update_next_event_date()\n        next_active_node = self.find_next_active_node()\n        self.current_time = next_active_node.next_event_date\n\n        if progress_bar:\n            self.progress_bar = tqdm.tqdm(total=max_simulation_time)",
     "(neutral) resume recomputes next events"),
    ("M32", ["C17"], T, "        self.state[node.id_number - 1][1] += 1\n        self.state[node.id_number - 1][0] -= 1", "        self.state[node.id_number - 1][1] += 1\n        if destination is not node:\n            self.state[node.id_number - 1][0] -= 1",
     "NaiveBlocking miscounts a self-loop blockage"),
    ("M33", ["C17"], T, "    def change_state_renege(self, node, destination, ind, blocked):\n        \"\"\"\n        Changes the state of the system when a customer reneges.\n        \"\"\"\n        self.change_state_release(node, destination, ind, blocked)",
     "    def change_state_renege(self, node, destination, ind, blocked):\n        \"\"\"\n        Changes the state of the system when a customer reneges.\n        \"\"\"\n        if destination.id_number == -1:\n            self.change_state_release(node, destination, ind, blocked)",
     "trackers ignore a reneging customer that jockeys to another node"),
    ("M34", ["C17"], T, "            if start < date <= end:", "            if start <= date <= end:", "(neutral at date == start) window start inclusive"),
    ("M35", ["C18"], D, "        for svr in next_node.servers:\n            self.statedigraph.add_edge(str(individual.server), str(svr))", "        for svr in next_node.servers[:2]:\n            self.statedigraph.add_edge(str(individual.server), str(svr))",
     "blockage edges only to the first two servers of the destination"),
    ("M36", ["C18"], S, "            if self.unchecked_blockage:\n                deadlocked = self.deadlock_detector.detect_deadlock()\n                self.unchecked_blockage = False", "            if self.unchecked_blockage and next_active_node is not self.nodes[0]:\n                deadlocked = self.deadlock_detector.detect_deadlock()\n                self.unchecked_blockage = False",
     "deadlock check skipped when the next event is an arrival (flag kept, detection late)"),
    ("M37", ["C19"], P, "                share_completed = (self.ps_threshold * current_period) / max(self.last_occupancy, self.ps_threshold)", "                share_completed = (self.ps_threshold * current_period) / max(next_occupancy, self.ps_threshold)",
     "work done in the past period computed with the new occupancy"),
    ("M38", ["C19"], P, "        if self.number_of_individuals >= self.ps_capacity:\n            ind = min(", "        if self.number_of_individuals > self.ps_capacity:\n            ind = min(",
     "PS: waiting customer not admitted when exactly `capacity` remain"),
    ("M39", ["C20"], E, "        return Decimal(str(original)) + Decimal(str(increment))\n\n    def get_service_time", "        return Decimal(str(original)) + Decimal(increment)\n\n    def get_service_time",
     "ExactNode.increment_time converts the increment from its binary value"),
    ("M40", ["C20"], E, "        return +Decimal(\n            str(\n                self.simulation.inter_arrival_times[nd][clss]._sample(\n                    self.simulation.current_time\n                )\n            )\n        )",
     "        return +Decimal(\n                self.simulation.inter_arrival_times[nd][clss]._sample(\n                    self.simulation.current_time\n                )\n        )", "exact inter-arrival times converted from binary floats"),
    ("M41", ["C10", "C02"], N, "        if (isinstance(s, float) or isinstance(s, int)) and s >= 0:", "        if (isinstance(s, float) or isinstance(s, int)) and s >= 0:", "(placeholder)"),
    ("M42", ["C06"], N, "        self.node_capacity = node.queueing_capacity + self.c", "        self.node_capacity = node.queueing_capacity + max(self.c, 1)", "zero-server nodes get one phantom place"),
    ("M43", ["C01", "C14"], A, "            if rnd_num < next_node.baulking_functions", "            if self.simulation.number_of_priority_classes > 1 and rnd_num == rnd_num and False:\n                pass\n            if rnd_num < next_node.baulking_functions", "(neutral)"),
    ("M44", ["C13"], N, "        return self.increment_time(self.now, dist.sample(t=self.now, ind=ind))", "        return self.increment_time(ind.arrival_date if ind.priority_class == 0 else self.now - 0.0, dist.sample(t=self.now, ind=ind))", "(neutral) reneging date from arrival date"),
    ("M45", ["C03", "C09"], R, "            node_index = ind.route.pop(0)", "            node_index = ind.route.pop(0 if len(ind.route) < 4 else 1)", "process routes of four or more steps skip ahead"),
]
# neutral / placeholder entries are excluded from the run
SKIP = {"M19", "M21", "M31", "M34", "M41", "M43", "M44"}


def run_one(m, suite=False, tier="quick"):
    mid, props, path, old, new, desc = m
    tmp = tempfile.mkdtemp(prefix="ciwmut_")
    out = tempfile.mkdtemp(prefix="ciwout_")
    res = {"id": mid, "properties": props, "file": path, "description": desc, "checks": {}}
    wt = os.path.join(tmp, "wt")
    try:
        subprocess.check_call(["git", "-C", "/repo", "worktree", "add", "-q", "--detach", wt, "HEAD"])
        src = open(os.path.join(wt, path)).read()
        if src.count(old) != 1:
            res["error"] = "pattern occurs %d times" % src.count(old)
            return res
        open(os.path.join(wt, path), "w").write(src.replace(old, new))
        if suite:
            r = subprocess.run(["/venv/bin/python", "-m", "pytest", "-q", "-p", "no:cacheprovider", "-x", "ciw/tests"], cwd=wt, capture_output=True, text=True)
            last = r.stdout.strip().splitlines()[-1] if r.stdout.strip() else ""
            res["suite"] = last
            res["survives_suite"] = (r.returncode == 0)
        env = dict(os.environ, VERIF_CIW_PATH=wt, VERIF_OUT=out, PYTHONHASHSEED="0")
        for pid in props:
            t0 = time.time()
            r = subprocess.run(["/venv/bin/python", "-m", "vf.runner", pid, tier], cwd="/verif", env=env, capture_output=True, text=True)
            viol = [l for l in r.stdout.splitlines() if l.startswith("VIOLATION")]
            res["checks"][pid] = {"exit": r.returncode, "wall_s": round(time.time() - t0, 1),
                                  "clauses": sorted(set(l.split("clause=")[1].split(" ")[0] for l in viol if "clause=" in l))[:6]}
            if r.returncode == 2:
                res["checks"][pid]["stderr"] = r.stderr[-500:]
        res["killed"] = any(c["exit"] == 1 for c in res["checks"].values())
    finally:
        subprocess.run(["git", "-C", "/repo", "worktree", "remove", "--force", wt], capture_output=True)
        shutil.rmtree(tmp, ignore_errors=True)
        shutil.rmtree(out, ignore_errors=True)
    return res


def main(argv):
    only = None
    if "--only" in argv:
        only = set(argv[argv.index("--only") + 1].split(","))
    suite = "--suite" in argv
    results = []
    for m in MUTANTS:
        if m[0] in SKIP or (only and m[0] not in only):
            continue
        r = run_one(m, suite=suite)
        results.append(r)
        print(r["id"], "KILLED" if r.get("killed") else ("ERROR " + r.get("error", "") if "error" in r else "SURVIVED"),
              r.get("suite", ""), {k: (v["exit"], v["clauses"][:2]) for k, v in r["checks"].items()}, "-", r["description"], flush=True)
    os.makedirs("/verif/mutants", exist_ok=True)
    path = "/verif/mutants/results.json"
    old = []
    if only and os.path.exists(path):
        old = [x for x in json.load(open(path)) if x["id"] not in only]
    json.dump(sorted(old + results, key=lambda x: x["id"]), open(path, "w"), indent=1)
    return 0


if __name__ == "__main__":
    sys.exit(main(sys.argv[1:]))
