"""Writes MANIFEST.json from the property modules that exist (run: /venv/bin/python -m vf.mkmanifest)."""
import importlib
import json
import os

import vf

ALL = ["C%02d" % i for i in range(1, 21)]
SETUP = ("/venv/bin/python -c 'import hypothesis' 2>/dev/null || /venv/bin/pip install --no-index --find-links /opt/veriftools/wheels hypothesis; "
         "/venv/bin/python -c 'import sys; sys.path.insert(0, \"/verif/.deps\"); import atheris' 2>/dev/null || "
         "/venv/bin/pip install --no-index --find-links /opt/veriftools/wheels --target /verif/.deps atheris || true")


def main():
    checks, na = [], []
    for pid in ALL:
        try:
            m = importlib.import_module("vf.props." + pid)
        except ImportError:
            na.append({"property_id": pid, "reason": "check not built yet in this round (planned: DESIGN.md section 5)"})
            continue
        checks.append({
            "property_id": pid,
            "quick_cmd": "./check %s quick" % pid,
            "thorough_cmd": "./check %s thorough" % pid,
            "evidence_file": "evidence/%s.json" % pid,
            "replay_cmd_template": "./check %s --replay {path}" % pid,
            "engine": getattr(m, "ENGINE", "vf.sysprop"),
            "level_claimed": {"category": "exploration",
                              "text": getattr(m, "LEVEL_TEXT", m.RULE[:600]) + "  Sub-checks: " + "; ".join("%s (%s)" % (x.name, x.kind) for x in m.subchecks("quick")) + ".",
                              "design_ref": "DESIGN.md section 5 (%s) and section 10.1 (sub-check table)" % pid},
            "level_note": "; ".join(getattr(m, "ASSUMPTIONS", [])) or "trusted base: CPython, Hypothesis, vf.observe ground-truth snapshot",
            "technique": getattr(m, "TECHNIQUE", "property-based testing (Hypothesis-generated networks, invariant monitor after every event)"),
        })
    man = {
        "version": 1,
        "setup_cmd": SETUP,
        "hooks": {"guard": "CIW_VERIF", "enable": "none needed: observation is by subclassing/wrappers through Ciw's public extension points; no source hooks exist",
                  "baseline_off_cmd": "cd /repo && /venv/bin/python -m pytest -q -p no:cacheprovider --timeout=900",
                  "source_commits": [], "add_only": True},
        "engines": [
            {"name": "vf.sysprop", "path": "vf/sysprop.py", "serves_properties": [c["property_id"] for c in checks],
             "kind_free_text": "Hypothesis @given over NetSpec configurations (vf/strategies.py -> vf/build.py); MonSimulation (vf/observe.py) runs invariant monitors (vf/monitors/) after every event; post-run audits"},
            {"name": "vf.runner", "path": "vf/runner.py", "serves_properties": [c["property_id"] for c in checks],
             "kind_free_text": "16-process sharding, collect-then-bucket, known-finding matching, spec-level reducer, replay files, evidence"},
            {"name": "vf.props unit / exhaustive / stateful sub-checks", "path": "vf/props/", "serves_properties": ["C08", "C09", "C12", "C15", "C17", "C18"],
             "kind_free_text": "Hypothesis @given over pure functions, itertools enumeration of finite sub-domains, RuleBasedStateMachine histories (C15)"},
            {"name": "vf.refdes", "path": "vf/refdes.py", "serves_properties": ["C07"], "kind_free_text": "independent reference simulator (differential oracle)"},
            {"name": "vf.fuzz", "path": "vf/fuzz/", "serves_properties": ["C01", "C02", "C14"],
             "kind_free_text": "atheris / libFuzzer over Hypothesis fuzz_one_input with the semantic monitors inside the target; committed corpus"},
        ],
        "checks": checks,
        "not_applicable": na,
        "notes": "All checks: cwd /verif, interpreter /venv/bin/python, PYTHONHASHSEED=0, import ciw from $VERIF_CIW_PATH (default /repo working tree). Exit 2 = harness error.",
    }
    json.dump(man, open(os.path.join(vf.VERIF_DIR, "MANIFEST.json"), "w"), indent=1)
    print("checks:", [c["property_id"] for c in checks], "n/a:", [x["property_id"] for x in na])


if __name__ == "__main__":
    main()
