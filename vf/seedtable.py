"""Regenerates the seeded-change table of DESIGN.md (between the SEEDTABLE markers) from seeded/*/meta.json."""
import glob
import json
import os
import re

rows = []
for d in sorted(glob.glob("/verif/seeded/*")):
    m = json.load(open(os.path.join(d, "meta.json")))
    needs = " ".join(m.get("needs_to_manifest", "").split())[:230]
    det = m.get("detected_by") or []
    clauses = []
    for c in det:
        clauses += [x.split("@")[0] for x in m["checks"][c]["clauses"][:2]]
    first = m.get("first_missed")
    rows.append("| %s | %s | %s | %s%s |" % (os.path.basename(d), "yes" if m.get("confirmed") else "NO", needs.replace("|", "/"),
                                             (", ".join(det) + ": " + ", ".join(sorted(set(clauses)))) if det else "**not detected**",
                                             (" (first missed: %s)" % first) if first else ""))
table = "| change | confirmed | what it needs (sub-agent's note, abridged) | caught by (quick tier) |\n|---|---|---|---|\n" + "\n".join(rows)
s = open("/verif/DESIGN.md").read()
if "<!-- SEEDTABLE-BEGIN -->" in s:
    s = re.sub(r"<!-- SEEDTABLE-BEGIN -->.*<!-- SEEDTABLE-END -->", "<!-- SEEDTABLE-BEGIN -->\n" + table.replace("\\", "\\\\") + "\n<!-- SEEDTABLE-END -->", s, flags=re.S)
else:
    s = s.replace("SEEDTABLE", "<!-- SEEDTABLE-BEGIN -->\n" + table + "\n<!-- SEEDTABLE-END -->", 1)
open("/verif/DESIGN.md", "w").write(s)
print(len(rows), "rows")
