"""NetSpec (plain JSON) -> ciw objects.  Public Ciw API only.

Every call builds *fresh* distribution / router / schedule / tracker objects, because Ciw does not
copy all of them per Simulation (see DESIGN 2.2).
"""
import copy
import json
import math
from math import isinf

import vf  # noqa: F401  (sets sys.path for ciw)
import ciw
import ciw.dists
import ciw.routing
import ciw.trackers
import ciw.deadlock
import ciw.disciplines

INF = float("inf")


def num(x):
    """JSON number decoding: "inf" -> float inf."""
    if x == "inf":
        return INF
    return x


# ------------------------------------------------------------------------------------------------
# distributions
# ------------------------------------------------------------------------------------------------
class LogDist(ciw.dists.Distribution):
    """Pass-through wrapper recording every sample Ciw asks for: (tag, t, ind_id, value)."""

    def __init__(self, inner, tag, log):
        self.inner = inner
        self.tag = tag
        self.log = log

    def __deepcopy__(self, memo):
        return LogDist(copy.deepcopy(self.inner, memo), self.tag, self.log)

    def __setattr__(self, k, v):
        object.__setattr__(self, k, v)
        if k == "simulation":
            try:
                self.inner.simulation = v
            except Exception:
                pass

    def __repr__(self):
        return "LogDist(%r)" % (self.inner,)

    def sample(self, t=None, ind=None):
        v = self.inner.sample(t, ind)
        self.log.append((self.tag, t, None if ind is None else ind.id_number, v))
        return v


class TimeDep(ciw.dists.Distribution):
    """Custom time-dependent distribution: value is a pure function of t."""

    def __init__(self, values, period):
        self.values = values
        self.period = period

    def sample(self, t=None, ind=None):
        t = 0.0 if t is None else float(t)
        return self.values[int(t / self.period) % len(self.values)]


class StateDep(ciw.dists.Distribution):
    """Custom state-dependent service distribution: value depends on the population of the node."""

    def __init__(self, values):
        self.values = values

    def sample(self, t=None, ind=None):
        if ind is None or not ind.simulation:
            return self.values[0]
        n = ind.simulation.nodes[ind.node].number_of_individuals
        return self.values[min(max(n, 0), len(self.values) - 1)]


class Keyed(ciw.dists.Distribution):
    """Value is a pure function of (customer id, number of records so far) -- independent of draw order."""

    def __init__(self, table):
        self.table = table
        self.k = 0

    def sample(self, t=None, ind=None):
        if ind is None:
            v = self.table[self.k % len(self.table)]
            self.k += 1
            return v
        return self.table[(ind.id_number * 7 + 3 * len(ind.data_records)) % len(self.table)]


class Bad(ciw.dists.Distribution):
    """Fault injection: returns an invalid value on the k-th draw (0-based)."""

    def __init__(self, inner, k, value):
        self.inner = inner
        self.k = k
        self.value = value
        self.n = 0
        self.reached = [False]

    def __deepcopy__(self, memo):
        b = Bad(copy.deepcopy(self.inner, memo), self.k, self.value)
        b.reached = self.reached
        return b

    def sample(self, t=None, ind=None):
        i = self.n
        self.n += 1
        if i == self.k:
            self.reached[0] = True
            return self.value
        return self.inner.sample(t, ind)


_OPS = {"add": "__add__", "sub": "__sub__", "mul": "__mul__", "div": "__truediv__"}


def make_dist(ds):
    """DistSpec -> ciw distribution (unwrapped)."""
    if ds is None:
        return None
    k = ds[0]
    d = ciw.dists
    if k == "det":
        return d.Deterministic(value=ds[1])
    if k == "seq":
        return d.Sequential(sequence=[num(v) for v in ds[1]])
    if k == "exp":
        return d.Exponential(rate=ds[1])
    if k == "uni":
        return d.Uniform(lower=ds[1], upper=ds[2])
    if k == "gamma":
        return d.Gamma(shape=ds[1], scale=ds[2])
    if k == "lognormal":
        return d.Lognormal(mean=ds[1], sd=ds[2])
    if k == "weibull":
        return d.Weibull(scale=ds[1], shape=ds[2])
    if k == "normal":
        return d.Normal(mean=ds[1], sd=ds[2])
    if k == "tri":
        return d.Triangular(lower=ds[1], mode=ds[2], upper=ds[3])
    if k == "erlang":
        return d.Erlang(rate=ds[1], num_phases=ds[2])
    if k == "hyperexp":
        return d.HyperExponential(rates=list(ds[1]), probs=list(ds[2]))
    if k == "hypererlang":
        return d.HyperErlang(rates=list(ds[1]), probs=list(ds[2]), phase_lengths=list(ds[3]))
    if k == "coxian":
        return d.Coxian(rates=list(ds[1]), probs=list(ds[2]))
    if k == "pmf":
        return d.Pmf(values=list(ds[1]), probs=list(ds[2]))
    if k == "emp":
        return d.Empirical(observations=list(ds[1]))
    if k == "mix":
        return d.MixtureDistribution(dists=[make_dist(x) for x in ds[1]], probs=list(ds[2]))
    if k == "comb":
        return getattr(make_dist(ds[2]), _OPS[ds[1]])(make_dist(ds[3]))
    if k == "poisson_intervals":
        return d.PoissonIntervals(rates=list(ds[1]), endpoints=list(ds[2]), max_sample_date=ds[3])
    if k == "poisson":
        return d.Poisson(rate=ds[1])
    if k == "geometric":
        return d.Geometric(prob=ds[1])
    if k == "binomial":
        return d.Binomial(n=ds[1], prob=ds[2])
    if k == "tdep":
        return TimeDep(list(ds[1]), ds[2])
    if k == "sdep":
        return StateDep(list(ds[1]))
    if k == "keyed":
        return Keyed(list(ds[1]))
    if k == "bad":
        v = ds[3]
        if v == "nan":
            v = float("nan")
        return Bad(make_dist(ds[1]), ds[2], v)
    raise ValueError("unknown DistSpec %r" % (ds,))


# ------------------------------------------------------------------------------------------------
# routing
# ------------------------------------------------------------------------------------------------
def _jockey_mixin(base, dests, probs):
    class _J(base):
        def next_node_for_jockeying(self, ind):
            idx = ciw.random_choice(dests, probs)
            return self.simulation.nodes[idx]
    _J.__name__ = "Jockey" + base.__name__
    return _J


def _reroute_mixin(base, to):
    class _R(base):
        def next_node_for_rerouting(self, ind):
            return self.simulation.nodes[to]
    _R.__name__ = "Reroute" + base.__name__
    return _R


def make_node_router(rs):
    R = ciw.routing
    k = rs["r"]
    if k == "direct":
        cls, args = R.Direct, dict(to=rs["to"])
    elif k == "leave":
        cls, args = R.Leave, {}
    elif k == "prob":
        cls, args = R.Probabilistic, dict(destinations=list(rs["dests"]), probs=[float(p) for p in rs["probs"]])
    elif k == "jsq":
        cls, args = R.JoinShortestQueue, dict(destinations=list(rs["dests"]), tie_break=rs.get("tie", "random"))
    elif k == "lb":
        cls, args = R.LoadBalancing, dict(destinations=list(rs["dests"]), tie_break=rs.get("tie", "random"))
    elif k == "cycle":
        cls, args = R.Cycle, dict(cycle=list(rs["cycle"]))
    else:
        raise ValueError(rs)
    if rs.get("jockey"):
        cls = _jockey_mixin(cls, list(rs["jockey"]["dests"]), [float(p) for p in rs["jockey"]["probs"]])
    if rs.get("reroute_to") is not None:
        cls = _reroute_mixin(cls, rs["reroute_to"])
    return cls(**args)


def make_routing(rs, n_nodes):
    R = ciw.routing
    k = rs["kind"]
    if k == "matrix":
        return R.TransitionMatrix(transition_matrix=[[float(p) for p in row] for row in rs["rows"]])
    if k == "network":
        return R.NetworkRouting(routers=[make_node_router(r) for r in rs["routers"]])
    if k == "process":
        routes = rs["routes"]

        def route_function(ind, simulation, routes=routes):
            return list(routes[ind.id_number % len(routes)])  # fresh list: Ciw mutates it
        return R.ProcessBased(route_function)
    if k == "flexible":
        routes = rs["routes"]

        def route_function(ind, simulation, routes=routes):
            return [list(s) for s in routes[ind.id_number % len(routes)]]
        return R.FlexibleProcessBased(route_function, rule=rs["rule"], choice=rs["choice"])
    raise ValueError(rs)


# ------------------------------------------------------------------------------------------------
# misc callables
# ------------------------------------------------------------------------------------------------
class LogBaulk(object):
    def __init__(self, fn, log, tag):
        self.fn, self.log, self.tag = fn, log, tag

    def __call__(self, n, Q=None, next_ind=None, next_node=None):
        p = self.fn(n)
        truth = None
        if next_node is not None:
            truth = len(next_node.all_individuals)
        self.log.append((self.tag, n, truth, p, None if next_ind is None else next_ind.id_number,
                         None if Q is None else Q.current_time))
        return p


def make_baulk(bs):
    if bs is None:
        return None
    k = bs[0]
    if k == "thr":
        return lambda n, thr=bs[1]: 1.0 if n >= thr else 0.0
    if k == "lin":
        return lambda n, m=bs[1]: min(1.0, n / float(m))
    if k == "const":
        return lambda n, p=bs[1]: p
    raise ValueError(bs)


def _baulk_callable(fn):
    def f(n, Q=None, next_ind=None, next_node=None):
        return fn(n)
    return f


SERVER_PRIORITY = {
    "id_desc": lambda srv, ind: -srv.id_number,
    "busy_time": lambda srv, ind: srv.busy_time,
    "id_parity": lambda srv, ind: (srv.id_number + ind.id_number) % 2,
    "last_resort": lambda srv, ind: 0 if srv.id_number % 2 else float("inf"),      # even-numbered servers only when nothing else is free
}
DISCIPLINES = {"FIFO": ciw.disciplines.FIFO, "LIFO": ciw.disciplines.LIFO, "SIRO": ciw.disciplines.SIRO}


def make_servers(ss):
    k = ss["kind"]
    if k == "int":
        return int(ss["c"])
    if k == "inf":
        return INF
    if k == "schedule":
        return ciw.Schedule(numbers_of_servers=list(ss["numbers"]), shift_end_dates=list(ss["ends"]),
                            preemption=ss.get("preemption", False), offset=float(ss.get("offset", 0.0)))
    if k == "slotted":
        return ciw.Slotted(slots=list(ss["slots"]), slot_sizes=list(ss["sizes"]),
                           capacitated=bool(ss.get("capacitated", False)),
                           preemption=ss.get("preemption", False), offset=float(ss.get("offset", 0.0)))
    raise ValueError(ss)


def make_tracker(ts):
    T = ciw.trackers
    if ts is None:
        return None
    k = ts["kind"]
    if k == "SystemPopulation":
        return T.SystemPopulation()
    if k == "NodePopulation":
        return T.NodePopulation()
    if k == "NodePopulationSubset":
        return T.NodePopulationSubset(list(ts["nodes"]))
    if k == "GroupedNodePopulation":
        return T.GroupedNodePopulation([list(g) for g in ts["groups"]])
    if k == "NodeClassMatrix":
        return T.NodeClassMatrix(class_ordering=ts.get("order"))
    if k == "NaiveBlocking":
        return T.NaiveBlocking()
    if k == "MatrixBlocking":
        return T.MatrixBlocking()
    raise ValueError(ts)


# ------------------------------------------------------------------------------------------------
# whole network
# ------------------------------------------------------------------------------------------------
class Built(object):
    """Result of build(): network + Simulation kwargs + logs."""
    pass


def build(spec, log=False, baulk_log=False):
    """Build a fresh ciw.Network and the keyword arguments for Simulation from a NetSpec.

    log=True wraps arrival / service / batch / reneging / class-change-time distributions in LogDist.
    Must be called *after* ciw.seed(spec['seed']) (PoissonIntervals draws at construction).
    """
    b = Built()
    b.spec = spec
    b.samples = []      # LogDist entries
    b.baulks = []       # LogBaulk entries
    nodes = spec["nodes"]
    classes = spec["classes"]
    n = len(nodes)
    names = [c["name"] for c in classes]

    def D(ds, tag):
        d = make_dist(ds)
        if d is not None and log:
            return LogDist(d, tag, b.samples)
        return d

    kw = {}
    classes = list(reversed(classes))     # per-class dictionaries are inserted in reverse name order (any order is valid input)
    kw["arrival_distributions"] = {c["name"]: [D(c["arrival"][i], ("arr", i + 1, c["name"])) for i in range(n)] for c in classes}
    kw["service_distributions"] = {c["name"]: [D(c["service"][i], ("srv", i + 1, c["name"])) for i in range(n)] for c in classes}
    servers_objs, made = [], {}
    for nd in nodes:
        key = json.dumps(nd["servers"], sort_keys=True)
        if nd.get("same_schedule_object") and key in made:
            servers_objs.append(made[key])          # the user wrote number_of_servers=[rota, rota]: one Schedule object at two nodes
        else:
            made[key] = make_servers(nd["servers"])
            servers_objs.append(made[key])
    kw["number_of_servers"] = servers_objs
    if n == 1 and all(c["routing"] == {"kind": "matrix", "rows": [[0.0]]} for c in classes) and spec.get("seed", 0) % 2 == 0:
        pass        # leave-after-service on a single node: half of the cases rely on create_network's default routing
    else:
        kw["routing"] = {c["name"]: make_routing(c["routing"], n) for c in classes}
    if any(nd.get("cap", "inf") != "inf" for nd in nodes):
        kw["queue_capacities"] = [num(nd.get("cap", "inf")) for nd in nodes]
    if any(c.get("batch") and any(x is not None for x in c["batch"]) for c in classes):
        kw["batching_distributions"] = {
            c["name"]: [D((c.get("batch") or [None] * n)[i] or ["det", 1], ("bat", i + 1, c["name"])) for i in range(n)]
            for c in classes}
    if any(c.get("renege") and any(x is not None for x in c["renege"]) for c in classes):
        kw["reneging_time_distributions"] = {
            c["name"]: [D((c.get("renege") or [None] * n)[i], ("ren", i + 1, c["name"])) for i in range(n)]
            for c in classes}
    if any(c.get("baulk") and any(x is not None for x in c["baulk"]) for c in classes):
        bf = {}
        for c in classes:
            row = []
            for i in range(n):
                bs = (c.get("baulk") or [None] * n)[i]
                fn = make_baulk(bs)
                if fn is None:
                    row.append(None)
                elif baulk_log:
                    row.append(LogBaulk(fn, b.baulks, (i + 1, c["name"])))
                else:
                    row.append(_baulk_callable(fn))
            bf[c["name"]] = row
        kw["baulking_functions"] = bf
    if any(c.get("cct") for c in classes):
        kw["class_change_time_distributions"] = {
            c["name"]: {to: D(ds, ("cct", c["name"], to)) for to, ds in sorted((c.get("cct") or {}).items())}
            for c in classes}
    prios = {c["name"]: c.get("priority", 0) for c in classes}
    preempts = [nd.get("prio_preempt", False) for nd in nodes]
    if any(p is not False for p in preempts):
        kw["priority_classes"] = (prios, preempts)
    elif any(v != 0 for v in prios.values()):
        kw["priority_classes"] = prios
    if any(nd.get("ccm") for nd in nodes):
        rn = list(reversed(names))      # row / column dicts deliberately not in sorted key order
        ident = {a: {bb: (1.0 if a == bb else 0.0) for bb in rn} for a in rn}
        kw["class_change_matrices"] = [
            ({a: {bb: float(nd["ccm"][a][bb]) for bb in rn} for a in rn} if nd.get("ccm") else copy.deepcopy(ident))
            for nd in nodes]
    if any(nd.get("ps_threshold", 1) != 1 for nd in nodes):
        kw["ps_thresholds"] = [nd.get("ps_threshold", 1) for nd in nodes]
    if any(nd.get("server_priority") for nd in nodes):
        kw["server_priority_functions"] = [SERVER_PRIORITY.get(nd.get("server_priority")) for nd in nodes]
    if any(nd.get("discipline", "FIFO") != "FIFO" for nd in nodes):
        kw["service_disciplines"] = [DISCIPLINES[nd.get("discipline", "FIFO")] for nd in nodes]
    if spec.get("system_capacity", "inf") != "inf":
        kw["system_capacity"] = spec["system_capacity"]
    b.network_kwargs = kw
    b.network = ciw.create_network(**kw)

    skw = {}
    if spec.get("exact"):
        skw["exact"] = spec["exact"]
    tr = make_tracker(spec.get("tracker"))
    if tr is not None:
        skw["tracker"] = tr
    if spec.get("deadlock"):
        skw["deadlock_detector"] = ciw.deadlock.StateDigraph()
    b.sim_kwargs = skw
    b.ps_nodes = [bool(nd.get("ps")) for nd in nodes]
    return b


# ------------------------------------------------------------------------------------------------
# spec introspection
# ------------------------------------------------------------------------------------------------
def features(spec):
    """Set of feature names present in a spec (for evidence, pair coverage and bucketing)."""
    f = set()
    nodes, classes = spec["nodes"], spec["classes"]
    if len(nodes) > 1:
        f.add("multi_node")
    if len(classes) > 1:
        f.add("multi_class")
    for nd in nodes:
        f |= node_features(spec, nd)
    for c in classes:
        if c.get("renege") and any(c["renege"]):
            f.add("reneging")
        if c.get("baulk") and any(c["baulk"]):
            f.add("baulking")
        if c.get("batch") and any(c["batch"]):
            f.add("batching")
        if c.get("cct"):
            f.add("cc_waiting")
        r = c["routing"]
        f.add("route_" + r["kind"])
        if r["kind"] == "network":
            for x in r["routers"]:
                f.add("r_" + x["r"])
                if x.get("jockey"):
                    f.add("jockeying")
    if len(set(c.get("priority", 0) for c in classes)) > 1:
        f.add("priorities")
    if spec.get("system_capacity", "inf") != "inf":
        f.add("system_capacity")
    if spec.get("exact"):
        f.add("exact")
    if spec.get("tracker"):
        f.add("tracker")
    if spec.get("deadlock"):
        f.add("deadlock")
    return f


def node_features(spec, nd):
    f = set()
    s = nd["servers"]
    k = s["kind"]
    if k == "inf":
        f.add("inf")
    elif k == "int":
        if s["c"] == 0:
            f.add("zero_servers")
    elif k == "schedule":
        f.add("schedule")
        if s.get("preemption"):
            f.add("sched_preempt")
            if s["preemption"] == "reroute":
                f.add("sched_reroute")
        if 0 in s["numbers"]:
            f.add("zero_shift")
    elif k == "slotted":
        f.add("slotted")
        if s.get("capacitated"):
            f.add("slot_capacitated")
        if s.get("preemption"):
            f.add("slot_preempt")
    if nd.get("ps"):
        f.add("ps")
    if nd.get("cap", "inf") != "inf":
        f.add("capacity")
    if nd.get("prio_preempt"):
        f.add("prio_preempt")
        if nd["prio_preempt"] == "reroute":
            f.add("prio_reroute")
    if nd.get("ccm"):
        f.add("cc_after")
    if nd.get("discipline", "FIFO") != "FIFO":
        f.add("discipline")
    if nd.get("server_priority"):
        f.add("server_priority")
    return f


def spec_digest(spec):
    import hashlib
    import json
    return hashlib.sha1(json.dumps(spec, sort_keys=True).encode()).hexdigest()[:16]
