"""Hypothesis strategies producing NetSpecs (plain JSON-able dicts).

Only *valid* Ciw inputs are generated (see DESIGN 2.1 'Soundness of the generator'); values are
constructed, not filtered.  A Profile says which features a property's quantifier allows and how
often each is drawn.
"""
from hypothesis import strategies as st

GRID = [0.25, 0.5, 0.75, 1.0, 1.5, 2.0, 3.0]
GRID_SHORT = [0.25, 0.5, 0.5, 1.0, 1.0, 1.5]
GRID_LONG = [2.0, 3.0, 4.5, 6.0, 8.0]
LONG_DIGITS = [0.3333333333333333, 0.14285714285714285, 0.6180339887498949, 1.4142135623730951, 0.7071067811865476]
DEC_GRID = [0.1, 0.2, 0.3, 0.5, 0.7, 1.1, 1.3]
DEC_SHORT = [0.1, 0.2, 0.3, 0.3, 0.5, 0.7]

ALL_FEATURES = [
    "inf", "zero_servers", "schedule", "sched_preempt", "sched_reroute", "slotted", "slot_capacitated", "slot_preempt",
    "ps", "capacity", "system_capacity", "priorities", "prio_preempt", "prio_reroute", "reneging", "jockeying",
    "baulking", "batching", "cc_after", "cc_waiting", "discipline", "server_priority", "exact", "tracker", "deadlock",
    "routing_objects", "process_routing", "flexible_routing", "self_loops", "custom_dists", "zero_service",
]


class Profile(object):
    def __init__(self, allowed, weights=None, required=(), numeric="grid", max_nodes=3, max_classes=3,
                 plans=("max_time",), horizon=(4.0, 16.0), budget=600, max_c=3, caps=(0, 1, 2, 3),
                 resumptions=(1, 3), load="mixed", excluded=(), seq_len=5, require_any=(), stay=0.0, finite_arrivals=0.0,
                 router_kinds=None, routing_kinds=None, min_dests=1, long_service=0.0, node_kinds=None, tracker_kinds=None, long_digits=0.0, min_nodes=1, zero_p=0.1, zero_first=0.12):
        self.allowed = set(allowed)
        self.weights = dict(weights or {})
        self.required = set(required)
        self.require_any = tuple(require_any)
        self.numeric = numeric
        self.max_nodes = max_nodes
        self.max_classes = max_classes
        self.plans = tuple(plans)
        self.horizon = horizon
        self.budget = budget
        self.max_c = max_c
        self.caps = tuple(caps)
        self.resumptions = resumptions
        self.load = load
        self.excluded = tuple(excluded)     # names of known-finding exclusion predicates to apply
        self.seq_len = seq_len
        self.stay = stay                    # probability that a transition-matrix row has no exit share
        self.finite_arrivals = finite_arrivals      # probability that an arrival stream is finite (Sequential ending in inf)
        self.router_kinds = router_kinds            # override of the per-node router kinds of a NetworkRouting
        self.routing_kinds = routing_kinds          # override of the per-class routing kinds
        self.min_dests = min_dests                  # least number of destinations of a JSQ / LB router
        self.long_service = long_service            # probability that a (grid) service distribution is drawn from the long-duration grid
        self.node_kinds = node_kinds                # fixed server kinds per node position, e.g. ("slotted", "schedule"): a pipeline shape
        self.tracker_kinds = tracker_kinds          # restrict the state trackers drawn
        self.long_digits = long_digits              # probability that a grid value is replaced by a 16-17 significant digit constant
        self.min_nodes = min_nodes
        self.zero_p = zero_p                        # probability that a non-arrival grid value is exactly 0
        self.zero_first = zero_first                # probability that a Sequential arrival stream starts with 0.0 (first customer at t = 0)

    def w(self, f, default=0.3):
        if f not in self.allowed:
            return 0.0
        if f in self.required:
            return 1.0
        return self.weights.get(f, default)


def _flag(draw, p):
    if p <= 0.0:
        return False
    if p >= 1.0:
        return True
    return draw(st.integers(0, 99)) < int(p * 100)


# ------------------------------------------------------------------------------------------------
# numbers and distributions
# ------------------------------------------------------------------------------------------------
def _dyadic_probs(draw, k, allow_zero=True, total=8):
    """k non-negative multiples of 1/total summing exactly to 1.0 (exact in binary floating point)."""
    cuts = sorted(draw(st.lists(st.integers(0, total), min_size=k - 1, max_size=k - 1)))
    parts = [b - a for a, b in zip([0] + cuts, cuts + [total])]
    if not allow_zero:
        # shift mass so that no part is zero (possible only when k <= total)
        for i in range(k):
            if parts[i] == 0:
                j = max(range(k), key=lambda x: parts[x])
                parts[j] -= 1
                parts[i] += 1
    return [p / float(total) for p in parts]


def _sub_probs(draw, k, total=8):
    """k non-negative multiples of 1/total summing to <= 1 (last share = leave)."""
    ps = _dyadic_probs(draw, k + 1, total=total)
    return ps[:k]


def grid_value(draw, prof, positive=True, grid=None):
    g = grid or (DEC_GRID if prof.numeric == "decgrid" else GRID)
    if not positive and _flag(draw, prof.zero_p):
        return 0.0
    v = draw(st.sampled_from(g))
    if prof.long_digits and _flag(draw, prof.long_digits):
        v = draw(st.sampled_from(LONG_DIGITS)) if _flag(draw, 0.3) else draw(st.integers(3, 400)) / 97.0
    if prof.numeric == "jitter":
        v = v + draw(st.integers(0, 7)) * 1e-13       # distinct dates that differ by less than 1e-12: near-ties, not ties
    return v


def dist_grid(draw, prof, role):
    """Discrete-valued distribution spec; role in arrival/service/patience/cct."""
    positive = role in ("arrival", "cct") or "zero_service" not in prof.allowed
    g = None
    if role == "arrival" and prof.load == "heavy":
        g = DEC_SHORT if prof.numeric == "decgrid" else GRID_SHORT
    if role == "service" and prof.long_service and _flag(draw, prof.long_service):
        g = GRID_LONG
    kind = draw(st.sampled_from(["det", "seq", "seq", "pmf", "emp"] + (["tdep", "sdep"] if ("custom_dists" in prof.allowed and role == "service") else [])
                                + (["tdep"] if ("custom_dists" in prof.allowed and role == "arrival") else [])))
    n = draw(st.integers(2, prof.seq_len))
    if kind == "det":
        return ["det", grid_value(draw, prof, positive=positive, grid=g)]
    vals = [grid_value(draw, prof, positive=positive, grid=g) for _ in range(n)]
    if role in ("arrival", "cct") and vals[0] == 0.0:
        vals[0] = 0.5
    if kind == "seq" and role in ("arrival", "service") and prof.numeric == "grid" and _flag(draw, 0.2):
        # a combined distribution with a stateful operand (the sum stays on the grid) ...
        comb = ["comb", "add", ["seq", vals], ["det", draw(st.sampled_from([0.0, 0.25, 0.5]))]]
        if _flag(draw, 0.4):
            # ... possibly nested inside a mixture (state two levels down: Mixture -> Combined -> Sequential)
            other = ["det", grid_value(draw, prof, positive=True, grid=g)]
            return ["mix", [comb, other] if _flag(draw, 0.5) else [other, ["mix", [comb, other], [0.5, 0.5]]], [0.5, 0.5]]
        return comb
    if kind == "seq":
        if role == "arrival" and prof.numeric != "decgrid" and "zero_service" in prof.allowed and _flag(draw, prof.zero_first):
            vals[0] = 0.0          # first arrival exactly at t = 0 (the other values keep the stream's mean positive)
        return ["seq", vals]
    if kind == "pmf":
        return ["pmf", vals, _dyadic_probs(draw, n)]
    if kind == "emp":
        return ["emp", vals]
    if kind == "tdep":
        return ["tdep", vals, draw(st.sampled_from([1.0, 2.0, 2.5]))]
    return ["sdep", vals]


def dist_cont(draw, prof, role):
    """Continuous (tie-free) distribution spec."""
    scale = draw(st.sampled_from([0.3, 0.5, 0.8, 1.0, 1.5, 2.5]))
    kind = draw(st.sampled_from(["exp", "exp", "uni", "gamma", "erlang", "hyperexp", "lognormal", "tri", "weibull",
                                 "coxian", "mix", "comb"]))
    if kind == "exp":
        return ["exp", round(1.0 / scale, 4)]
    if kind == "uni":
        lo = draw(st.sampled_from([0.05, 0.1, 0.3]))
        return ["uni", lo * scale, (lo + 1.5) * scale]
    if kind == "gamma":
        return ["gamma", draw(st.sampled_from([0.7, 1.5, 2.0, 3.0])), round(scale / 2.0, 4)]
    if kind == "erlang":
        k = draw(st.integers(1, 3))
        return ["erlang", round(k / scale, 4), k]
    if kind == "hyperexp":
        return ["hyperexp", [round(2.0 / scale, 4), round(0.5 / scale, 4)], [0.5, 0.5]]
    if kind == "lognormal":
        return ["lognormal", -0.5, draw(st.sampled_from([0.3, 0.6]))]
    if kind == "tri":
        return ["tri", 0.1 * scale, 0.8 * scale, 2.0 * scale]
    if kind == "weibull":
        return ["weibull", scale, draw(st.sampled_from([0.8, 1.5, 2.0]))]
    if kind == "coxian":
        return ["coxian", [round(2.0 / scale, 4), round(1.0 / scale, 4)], [0.5, 1.0]]
    if kind == "mix":
        return ["mix", [["exp", round(1.0 / scale, 4)], ["uni", 0.1 * scale, 1.2 * scale]], [0.5, 0.5]]
    return ["comb", "add", ["exp", round(2.0 / scale, 4)], ["uni", 0.05 * scale, 0.6 * scale]]


def dist(draw, prof, role):
    if role == "arrival" and prof.finite_arrivals and _flag(draw, prof.finite_arrivals):
        # a finite arrival process: Sequential ending in inf (the stream runs out and the system drains)
        k = draw(st.integers(2, 8))
        if prof.numeric in ("cont",):
            vals = [round(draw(st.floats(0.05, 1.5, allow_nan=False)), 6) + 1e-7 * (i + 1) for i in range(k)]
        else:
            vals = [grid_value(draw, prof) for _ in range(k)]
        if prof.numeric != "decgrid" and _flag(draw, 0.2):
            vals[0] = 0.0          # the stream's first customer arrives at exactly t = 0 (a service can start at date 0.0)
        return ["seq", vals + ["inf"]]
    if prof.numeric == "cont":
        return dist_cont(draw, prof, role)
    if prof.numeric == "mixed" and _flag(draw, 0.5):
        return dist_cont(draw, prof, role)
    return dist_grid(draw, prof, role)


def batch_dist(draw, prof):
    kind = draw(st.sampled_from(["det", "seq", "pmf", "poisson", "binomial", "geometric"]))
    if kind == "det":
        return ["det", draw(st.integers(1, 3))]
    if kind == "seq":
        return ["seq", draw(st.lists(st.integers(0, 3), min_size=2, max_size=4))]
    if kind == "pmf":
        return ["pmf", [0, 1, 2, 4], _dyadic_probs(draw, 4)]
    if kind == "poisson":
        return ["poisson", draw(st.sampled_from([0.7, 1.5]))]
    if kind == "binomial":
        return ["binomial", draw(st.integers(1, 3)), 0.5]
    return ["geometric", draw(st.sampled_from([0.5, 0.7]))]


# ------------------------------------------------------------------------------------------------
# servers
# ------------------------------------------------------------------------------------------------
def _boundaries(draw, prof, k):
    """k strictly increasing positive boundaries on the grid."""
    # decimal-grid profile: boundaries on multiples of 0.5 (decimal *and* dyadic, so Ciw's float timetable arithmetic is exact;
    # timetables with other decimal boundaries are the pinned finding F28)
    step = [0.5, 1.0, 1.5, 2.0] if prof.numeric == "decgrid" else [0.5, 1.0, 1.5, 2.0, 2.5]
    out, t = [], 0.0
    for _ in range(k):
        t = t + draw(st.sampled_from(step))
        out.append(round(t, 6))
    return out


def servers(draw, prof, kinds):
    kind = draw(st.sampled_from(kinds))
    if kind == "int":
        return {"kind": "int", "c": draw(st.integers(1, prof.max_c))}
    if kind == "zero":
        return {"kind": "int", "c": 0}
    if kind == "inf":
        return {"kind": "inf"}
    if kind == "schedule":
        k = draw(st.integers(1, 4))
        lo = 0 if "zero_shift" in prof.allowed or "schedule" in prof.allowed else 1
        numbers = draw(st.lists(st.integers(lo, prof.max_c), min_size=k, max_size=k))
        if "no_zero_shift" in prof.allowed:
            numbers = [max(1, x) for x in numbers]
        pre = False
        if _flag(draw, prof.w("sched_preempt", 0.4)):
            opts = ["resume", "restart", "resample"] + (["reroute"] if prof.w("sched_reroute") > 0 else [])
            pre = draw(st.sampled_from(opts))
        return {"kind": "schedule", "numbers": numbers, "ends": _boundaries(draw, prof, k), "preemption": pre,
                "offset": draw(st.sampled_from([0.0, 0.0, 0.5, 1.5] if prof.numeric == "decgrid" else [0.0, 0.0, 0.5, 1.25]))}
    if kind == "slotted":
        k = draw(st.integers(1, 4))
        cap = _flag(draw, prof.w("slot_capacitated", 0.5))
        pre = False
        if cap and _flag(draw, prof.w("slot_preempt", 0.5)):
            pre = draw(st.sampled_from(["resume", "restart", "resample"]))
        return {"kind": "slotted", "slots": _boundaries(draw, prof, k),
                "sizes": draw(st.lists(st.integers(0, 3), min_size=k, max_size=k)),
                "capacitated": cap, "preemption": pre, "offset": draw(st.sampled_from([0.0, 0.0, 0.5]))}
    raise ValueError(kind)


# ------------------------------------------------------------------------------------------------
# routing
# ------------------------------------------------------------------------------------------------
def _dests(draw, n, self_id, self_loops, min_size=1, max_size=3, service_only=True):
    pool = [i for i in range(1, n + 1) if self_loops or i != self_id]
    if not pool:
        pool = [self_id]
    return draw(st.lists(st.sampled_from(pool), min_size=min_size, max_size=max_size, unique=True))


def node_router(draw, prof, n, i, self_loops, jockey):
    kinds = ["prob", "prob", "leave", "direct"]
    if prof.w("routing_objects") > 0:
        kinds += ["jsq", "lb", "cycle", "jsq"]
    if prof.router_kinds:
        kinds = list(prof.router_kinds)
    k = draw(st.sampled_from(kinds))
    if k == "leave":
        r = {"r": "leave"}
    elif k == "direct":
        pool = [j for j in range(1, n + 1) if self_loops or j != i]
        r = {"r": "direct", "to": draw(st.sampled_from(pool))} if pool else {"r": "leave"}
    elif k == "prob":
        dests = list(range(1, n + 1))
        probs = _sub_probs(draw, n)
        if not self_loops:
            probs[i - 1] = 0.0
        r = {"r": "prob", "dests": dests, "probs": probs}
    elif k in ("jsq", "lb"):
        r = {"r": k, "dests": _dests(draw, n, i, self_loops, min_size=min(prof.min_dests, n if self_loops else max(n - 1, 1))),
             "tie": draw(st.sampled_from(["random", "order"]))}
    else:
        cyc = draw(st.lists(st.sampled_from([j for j in range(1, n + 1) if self_loops or j != i] + [-1]), min_size=1, max_size=4))
        r = {"r": "cycle", "cycle": cyc}
    if jockey and _flag(draw, 0.7):
        dests = [j for j in range(1, n + 1) if j != i] + [-1]
        r["jockey"] = {"dests": dests, "probs": _dyadic_probs(draw, len(dests))}
    return r


def routing_kinds(prof, on, jockey):
    kinds = ["matrix", "matrix"]
    if on.get("routing_objects") or jockey:
        kinds += ["network", "network"]
    if on.get("process_routing"):
        kinds += ["process", "process"]
    if on.get("flexible_routing"):
        kinds += ["flexible", "flexible"]
    if prof.routing_kinds:
        kinds = list(prof.routing_kinds)
    if jockey:
        kinds = ["network"]
    return kinds


def routing(draw, prof, n, self_loops, jockey, kinds):
    k = draw(st.sampled_from(kinds))
    if k == "matrix":
        rows = []
        for i in range(1, n + 1):
            row = _dyadic_probs(draw, n) if (prof.stay and _flag(draw, prof.stay)) else _sub_probs(draw, n)
            if not self_loops:
                row[i - 1] = 0.0
            # make zeros frequent: they are what the fidelity oracle needs
            rows.append(row)
        return {"kind": "matrix", "rows": rows}
    if k == "network":
        return {"kind": "network", "routers": [node_router(draw, prof, n, i, self_loops, jockey) for i in range(1, n + 1)]}
    if k == "process":
        routes = draw(st.lists(st.lists(st.integers(1, n), min_size=0, max_size=4), min_size=1, max_size=3))
        return {"kind": "process", "routes": routes}
    routes = draw(st.lists(st.lists(st.lists(st.integers(1, n), min_size=1, max_size=3, unique=True), min_size=0, max_size=3),
                           min_size=1, max_size=3))
    return {"kind": "flexible", "routes": routes, "rule": draw(st.sampled_from(["any", "all"])),
            "choice": draw(st.sampled_from(["random", "jsq", "lb"]))}


# ------------------------------------------------------------------------------------------------
# whole spec
# ------------------------------------------------------------------------------------------------
@st.composite
def netspec(draw, prof):
    n = draw(st.integers(prof.min_nodes, prof.max_nodes))
    if prof.node_kinds:
        n = len(prof.node_kinds)
    ncls = draw(st.integers(1, prof.max_classes))
    names = ["C%d" % i for i in range(ncls)]
    on = {f: _flag(draw, prof.w(f)) for f in ALL_FEATURES}
    if prof.require_any and not any(on.get(f) for f in prof.require_any):
        on[draw(st.sampled_from(list(prof.require_any)))] = True
    if ncls == 1:
        on["priorities"] = False if "priorities" not in prof.required else on["priorities"]
    if on["priorities"] or on["prio_preempt"] or "priorities" in prof.required:
        if ncls == 1 and prof.max_classes > 1:
            ncls = draw(st.integers(2, prof.max_classes))
            names = ["C%d" % i for i in range(ncls)]
    exact = False
    if on["exact"]:
        exact = draw(st.integers(10, 30))
        on["ps"] = False

    # ---- nodes
    server_kinds = ["int", "int", "int"]
    for f, kname in (("inf", "inf"), ("zero_servers", "zero"), ("schedule", "schedule"), ("slotted", "slotted")):
        if on[f]:
            server_kinds += [kname, kname]
    nodes = []
    for i in range(n):
        nd = {}
        is_ps = on["ps"] and _flag(draw, 0.6)
        if is_ps:
            nd["ps"] = True
            nd["servers"] = draw(st.sampled_from([{"kind": "inf"}, {"kind": "int", "c": 1}, {"kind": "int", "c": 2}, {"kind": "int", "c": 3}]))
            nd["ps_threshold"] = draw(st.sampled_from([1, 2, 3, 1, 2, 3, 1.5, 2.5]))     # rate min(1, R/k): R need not be an integer
        else:
            nd["servers"] = servers(draw, prof, [prof.node_kinds[i]] if prof.node_kinds else server_kinds)
            twin = [x for x in nodes if x["servers"]["kind"] in ("schedule", "slotted") and not x.get("ps")]
            if twin and nd["servers"]["kind"] in ("schedule", "slotted") and _flag(draw, 0.3):
                # the same timetable object at two nodes (number_of_servers=[rota, rota]): their shift changes coincide
                import copy as _copy
                nd["servers"] = _copy.deepcopy(twin[0]["servers"])
                nd["same_schedule_object"] = True
        nd["cap"] = "inf"
        if on["capacity"] and _flag(draw, 0.7):
            nd["cap"] = draw(st.sampled_from(prof.caps))
        if on["discipline"]:
            nd["discipline"] = draw(st.sampled_from(["FIFO", "LIFO", "SIRO"]))
        if on["server_priority"] and nd["servers"]["kind"] in ("int", "schedule") and not is_ps:
            nd["server_priority"] = draw(st.sampled_from(["id_desc", "busy_time", "id_parity", "last_resort"]))
        nodes.append(nd)

    if any(nd.get("ps") for nd in nodes):
        # Processor-sharing nodes are only specified for networks without blocking into / out of them (C19);
        # PSNode keeps "serving" a blocked customer.  Precondition of the generator: PS => no finite queues.
        for nd in nodes:
            nd["cap"] = "inf"

    # ---- priorities
    prios = [0] * ncls
    if (on["priorities"] or on["prio_preempt"]) and ncls > 1:
        k = draw(st.integers(2, ncls))
        prios = list(range(k)) + [draw(st.integers(0, k - 1)) for _ in range(ncls - k)]
        prios = draw(st.permutations(prios))
        prios = list(prios)
    if on["prio_preempt"] and len(set(prios)) > 1:
        opts = ["resume", "restart", "resample"] + (["reroute"] if on["prio_reroute"] or "prio_reroute" in prof.required else [])
        if "prio_reroute" in prof.required:
            opts = ["reroute"]
        for nd in nodes:
            if nd["servers"]["kind"] in ("int", "schedule") and not nd.get("ps") and _flag(draw, 0.8):
                nd["prio_preempt"] = draw(st.sampled_from(opts))

    # ---- class change after service
    if on["cc_after"] and ncls > 1:
        for nd in nodes:
            if _flag(draw, 0.6):
                nd["ccm"] = {a: dict(zip(names, _dyadic_probs(draw, ncls, total=4))) for a in names}

    # ---- classes
    self_loops = on["self_loops"]
    jockey = on["jockeying"] and on["reneging"] and n > 1
    classes = []
    arrival_somewhere = False
    rkinds = routing_kinds(prof, on, jockey)
    if (on["cc_after"] or on["cc_waiting"]) and ncls > 1:
        # a customer's process-based route is fixed by the class it is created in; classes that customers can
        # change between must therefore share one routing family (plain / process / flexible)
        fam = draw(st.sampled_from(sorted(set("plain" if k in ("matrix", "network") else k for k in rkinds))))
        rkinds = [k for k in rkinds if (k in ("matrix", "network")) == (fam == "plain") and (fam == "plain" or k == fam)]
    for ci, name in enumerate(names):
        c = {"name": name, "priority": prios[ci]}
        arr = []
        for i in range(n):
            if _flag(draw, 0.65 if n > 1 else 1.0):
                a = dist(draw, prof, "arrival")
                if nodes[i]["servers"]["kind"] == "slotted" and "slot_zero_first_arrival" in prof.excluded:
                    a = _positive_first(a)
                arr.append(a)
            else:
                arr.append(None)
        if ci == ncls - 1 and not arrival_somewhere and all(a is None for a in arr):
            arr[0] = dist(draw, prof, "arrival")
        if any(a is not None for a in arr):
            arrival_somewhere = True
        c["arrival"] = arr
        c["service"] = [dist(draw, prof, "service") for _ in range(n)]
        if on["batching"]:
            c["batch"] = [batch_dist(draw, prof) if (arr[i] is not None and _flag(draw, 0.6)) else None for i in range(n)]
        if on["reneging"]:
            c["renege"] = [dist(draw, prof, "patience") if (_renege_ok(nodes[i]) and _flag(draw, 0.6)) else None for i in range(n)]
        if on["baulking"]:
            c["baulk"] = [_baulk(draw) if (arr[i] is not None and _flag(draw, 0.6)) else None for i in range(n)]
        if on["cc_waiting"] and ncls > 1 and _flag(draw, 0.7):
            others = [x for x in names if x != name]
            tos = draw(st.lists(st.sampled_from(others), min_size=1, max_size=len(others), unique=True))
            c["cct"] = {to: dist(draw, prof, "cct") for to in sorted(tos)}
        c["routing"] = routing(draw, prof, n, self_loops, jockey, rkinds)
        classes.append(c)

    spec = {"nodes": nodes, "classes": classes}
    if on["system_capacity"]:
        spec["system_capacity"] = draw(st.integers(1, 6))
    if exact:
        spec["exact"] = exact
    if on["tracker"]:
        spec["tracker"] = tracker(draw, n, names, prof.tracker_kinds)
    if on["deadlock"]:
        spec["deadlock"] = True
    spec["seed"] = draw(st.integers(0, 10 ** 6))
    spec["plan"] = plan(draw, prof)
    if spec["plan"]["kind"] != "max_time" and any(a is not None and a[0] == "seq" and a[1] and a[1][-1] == "inf" for c in classes for a in c["arrival"]):
        # a finite arrival process may never reach a customer count or a deadlock: such plans would loop at t = inf
        for c in classes:
            c["arrival"] = [a if not (a is not None and a[0] == "seq" and a[1][-1] == "inf") else ["seq", a[1][:-1]] for a in c["arrival"]]
    spec["event_budget"] = prof.budget * (2 if _thorough() else 1)
    if prof.excluded:
        import os
        from .findings import apply_exclusions
        skip = set(os.environ.get("VERIF_DROP_EXCLUSIONS", "").split(","))     # probing aid: which exclusions does a property need?
        spec = apply_exclusions(spec, [x for x in prof.excluded if x != "slot_zero_first_arrival" and x not in skip and "all" not in skip])
    return spec


def _positive_first(a):
    k = a[0]
    if k == "det" and a[1] == 0.0:
        return ["det", 0.5]
    if k in ("seq", "pmf", "emp", "tdep") and any(v == 0.0 for v in a[1]):
        b = list(a)
        b[1] = [v if v > 0.0 else 0.5 for v in a[1]]
        return b
    return a


def _renege_ok(nd):
    # Ciw schedules renege events only at nodes with finite servers (update_next_renege_time); a
    # reneging distribution at an infinite-server node is never used.
    return nd["servers"]["kind"] != "inf" or nd.get("ps")


def _baulk(draw):
    k = draw(st.sampled_from(["thr", "lin", "const"]))
    if k == "thr":
        return ["thr", draw(st.integers(0, 4))]
    if k == "lin":
        return ["lin", draw(st.integers(1, 5))]
    return ["const", draw(st.sampled_from([0.0, 0.25, 0.5, 1.0]))]


def tracker(draw, n, names, kinds=None):
    k = draw(st.sampled_from(list(kinds) if kinds else ["SystemPopulation", "NodePopulation", "NodePopulationSubset", "GroupedNodePopulation",
                                                        "NodeClassMatrix", "NaiveBlocking", "MatrixBlocking"]))
    t = {"kind": k}
    if k == "NodePopulationSubset":
        t["nodes"] = draw(st.lists(st.integers(0, n - 1), min_size=1, max_size=n, unique=True))
    if k == "GroupedNodePopulation":
        perm = list(draw(st.permutations(list(range(n)))))
        used = perm[:draw(st.integers(1, n))]
        cut = draw(st.integers(1, len(used)))
        t["groups"] = [g for g in (used[:cut], used[cut:]) if g]
    if k == "NodeClassMatrix" and draw(st.booleans()):
        t["order"] = list(draw(st.permutations(names)))
    return t


def _thorough():
    import os
    return os.environ.get("VERIF_ACTIVE_TIER") == "thorough"


def plan(draw, prof):
    kind = draw(st.sampled_from(prof.plans))
    lo, hi = prof.horizon
    if _thorough():
        hi = hi * 1.6          # thorough tier: longer histories (event budget doubled as well)
    if kind == "max_time":
        k = draw(st.integers(*prof.resumptions))
        ts = sorted(set(draw(st.lists(st.integers(int(lo * 4), int(hi * 4)), min_size=k, max_size=k))))
        if prof.numeric in ("cont", "jitter"):
            # irrational-ish split points: never equal to a generated event date
            return {"kind": "max_time", "T": [round(t / 4.0 + 0.0137, 4) for t in ts]}
        return {"kind": "max_time", "T": [t / 4.0 for t in ts]}
    if kind == "max_time_decimal":
        k = draw(st.integers(*prof.resumptions))
        ts = sorted(set(draw(st.lists(st.integers(int(lo * 10), int(hi * 10)), min_size=k, max_size=k))))
        return {"kind": "max_time", "T": [t / 10.0 for t in ts]}
    if kind == "max_customers":
        return {"kind": "max_customers", "n": draw(st.integers(1, 25)),
                "method": draw(st.sampled_from(["Complete", "Finish", "Arrive", "Accept"]))}
    if kind == "mixed":
        # one Simulation continued by calls of both stopping methods in any order (2-4 calls): horizons increase, counts are absolute totals
        k = draw(st.integers(2, 4))
        steps, t, n = [], lo / 2.0, 0
        for _ in range(k):
            if _flag(draw, 0.5):
                t = t + draw(st.integers(1, max(2, int((hi - lo) * 2)))) / 4.0
                steps.append(["max_time", t])
            else:
                n = n + draw(st.integers(1, 10))
                steps.append(["max_customers", n, draw(st.sampled_from(["Complete", "Finish", "Arrive", "Accept"]))])
        return {"kind": "mixed", "steps": steps}
    return {"kind": "until_deadlock"}
