"""Deterministic greedy reducer on the NetSpec JSON: keeps a step only if the same bucket (clause, site) still fails."""
import copy
import json


def _fails(sc, case, clause, site):
    try:
        o = sc.execute(case)
    except Exception:
        return None
    for v in o.get("violations", ()):
        if v["clause"] == clause and (site is None or v.get("site") == site):
            return v
    return None


def _candidates(spec):
    """Yield simpler variants of a spec (most aggressive first)."""
    n = len(spec["nodes"])
    ncls = len(spec["classes"])
    # drop a class
    if ncls > 1:
        for ci in range(ncls):
            s = copy.deepcopy(spec)
            name = s["classes"][ci]["name"]
            del s["classes"][ci]
            for c in s["classes"]:
                if c.get("cct"):
                    c["cct"].pop(name, None)
                    if not c["cct"]:
                        del c["cct"]
            for nd in s["nodes"]:
                if nd.get("ccm"):
                    nd["ccm"].pop(name, None)
                    for row in nd["ccm"].values():
                        p = row.pop(name, 0.0)
                        k = sorted(row)[0]
                        row[k] = row[k] + p
            pr = sorted(set(c.get("priority", 0) for c in s["classes"]))
            for c in s["classes"]:
                c["priority"] = pr.index(c.get("priority", 0))
            if s.get("tracker", {}) and s["tracker"].get("order"):
                s["tracker"]["order"] = [x for x in s["tracker"]["order"] if x != name]
            yield s
    # top-level features
    for key in ("tracker", "system_capacity", "exact", "deadlock"):
        if key in spec:
            s = copy.deepcopy(spec)
            del s[key]
            yield s
    # plan simplification
    p = spec["plan"]
    if p["kind"] == "max_time" and len(p["T"]) > 1:
        s = copy.deepcopy(spec)
        s["plan"]["T"] = [p["T"][-1]]
        yield s
        s = copy.deepcopy(spec)
        s["plan"]["T"] = p["T"][:-1]
        yield s
    if p["kind"] == "max_time":
        for f in (0.5, 0.75):
            s = copy.deepcopy(spec)
            s["plan"]["T"] = sorted(set(round(t * f * 4) / 4.0 for t in p["T"] if round(t * f * 4) > 0)) or [p["T"][0]]
            if s["plan"]["T"] != p["T"]:
                yield s
    if p["kind"] == "max_customers" and p["n"] > 1:
        s = copy.deepcopy(spec)
        s["plan"]["n"] = max(1, p["n"] // 2)
        yield s
    # per-node features
    for i, nd in enumerate(spec["nodes"]):
        for key in ("ccm", "prio_preempt", "discipline", "server_priority", "ps", "ps_threshold"):
            if nd.get(key):
                s = copy.deepcopy(spec)
                del s["nodes"][i][key]
                if key == "ps":
                    s["nodes"][i].pop("ps_threshold", None)
                yield s
        if nd.get("cap", "inf") != "inf":
            s = copy.deepcopy(spec)
            s["nodes"][i]["cap"] = "inf"
            yield s
        sv = nd["servers"]
        if sv["kind"] in ("schedule", "slotted"):
            s = copy.deepcopy(spec)
            s["nodes"][i]["servers"] = {"kind": "int", "c": 1}
            yield s
            if sv.get("preemption"):
                s = copy.deepcopy(spec)
                s["nodes"][i]["servers"]["preemption"] = False
                yield s
            if sv.get("offset"):
                s = copy.deepcopy(spec)
                s["nodes"][i]["servers"]["offset"] = 0.0
                yield s
            key = "numbers" if sv["kind"] == "schedule" else "sizes"
            bkey = "ends" if sv["kind"] == "schedule" else "slots"
            if len(sv[key]) > 1:
                s = copy.deepcopy(spec)
                s["nodes"][i]["servers"][key] = sv[key][:-1]
                s["nodes"][i]["servers"][bkey] = sv[bkey][:-1]
                yield s
        elif sv["kind"] == "int" and sv["c"] > 1:
            s = copy.deepcopy(spec)
            s["nodes"][i]["servers"]["c"] = sv["c"] - 1
            yield s
        elif sv["kind"] == "inf":
            s = copy.deepcopy(spec)
            s["nodes"][i]["servers"] = {"kind": "int", "c": 1}
            yield s
    # per-class features
    for ci, c in enumerate(spec["classes"]):
        for key in ("batch", "renege", "baulk", "cct"):
            if c.get(key):
                s = copy.deepcopy(spec)
                del s["classes"][ci][key]
                yield s
                if key != "cct":
                    for i in range(n):
                        if c[key][i] is not None:
                            s = copy.deepcopy(spec)
                            s["classes"][ci][key][i] = None
                            yield s
        for i in range(n):
            if c["arrival"][i] is not None and sum(1 for cc in spec["classes"] for a in cc["arrival"] if a is not None) > 1:
                s = copy.deepcopy(spec)
                s["classes"][ci]["arrival"][i] = None
                yield s
        for role in ("arrival", "service", "renege"):
            for i in range(n):
                ds = (c.get(role) or [None] * n)[i]
                if ds is None:
                    continue
                if ds[0] != "det":
                    for v in (1.0, 0.5):
                        s = copy.deepcopy(spec)
                        s["classes"][ci][role][i] = ["det", v]
                        yield s
                if ds[0] in ("seq", "emp") and len(ds[1]) > 1:
                    s = copy.deepcopy(spec)
                    s["classes"][ci][role][i] = [ds[0], ds[1][:-1]]
                    yield s
        r = c["routing"]
        if r["kind"] != "matrix":
            s = copy.deepcopy(spec)
            s["classes"][ci]["routing"] = {"kind": "matrix", "rows": [[0.0] * n for _ in range(n)]}
            yield s
        else:
            if any(p_ for row in r["rows"] for p_ in row):
                s = copy.deepcopy(spec)
                s["classes"][ci]["routing"]["rows"] = [[0.0] * n for _ in range(n)]
                yield s
                for i in range(n):
                    if any(r["rows"][i]):
                        s = copy.deepcopy(spec)
                        s["classes"][ci]["routing"]["rows"][i] = [0.0] * n
                        yield s
        if c.get("priority", 0) != 0:
            s = copy.deepcopy(spec)
            for cc in s["classes"]:
                cc["priority"] = 0
            for nd in s["nodes"]:
                nd.pop("prio_preempt", None)
            yield s
    # seed
    if spec.get("seed", 0) > 3:
        for sd in (0, 1, 2):
            s = copy.deepcopy(spec)
            s["seed"] = sd
            yield s


def _drop_node(spec, k):
    """Remove node k (0-based) when nothing refers to it structurally; returns None if not possible."""
    n = len(spec["nodes"])
    if n <= 1:
        return None
    s = copy.deepcopy(spec)
    del s["nodes"][k]

    def remap(j):          # 1-based node ids
        if j == -1:
            return -1
        if j == k + 1:
            return None
        return j - 1 if j > k + 1 else j
    for c in s["classes"]:
        for key in ("arrival", "service", "batch", "renege", "baulk"):
            if c.get(key):
                del c[key][k]
        if all(a is None for a in c["arrival"]) and all(all(a is None for a in cc["arrival"]) for cc in s["classes"]):
            return None
        r = c["routing"]
        if r["kind"] == "matrix":
            del r["rows"][k]
            for row in r["rows"]:
                del row[k]
        elif r["kind"] == "network":
            del r["routers"][k]
            for x in r["routers"]:
                if x["r"] == "direct":
                    m = remap(x["to"])
                    if m is None:
                        x.clear()
                        x["r"] = "leave"
                    else:
                        x["to"] = m
                elif x["r"] == "prob":
                    del x["probs"][k]
                    x["dests"] = list(range(1, n))
                elif x["r"] in ("jsq", "lb"):
                    x["dests"] = [remap(j) for j in x["dests"] if remap(j) is not None]
                    if not x["dests"]:
                        x.clear()
                        x["r"] = "leave"
                elif x["r"] == "cycle":
                    x["cycle"] = [remap(j) for j in x["cycle"] if remap(j) is not None] or [-1]
                if x.get("jockey"):
                    ds, ps = x["jockey"]["dests"], x["jockey"]["probs"]
                    nd_, np_ = [], []
                    lost = 0.0
                    for d_, p_ in zip(ds, ps):
                        m = remap(d_)
                        if m is None:
                            lost += p_
                        else:
                            nd_.append(m)
                            np_.append(p_)
                    if -1 in nd_:
                        np_[nd_.index(-1)] += lost
                    else:
                        nd_.append(-1)
                        np_.append(lost)
                    x["jockey"] = {"dests": nd_, "probs": np_}
                if x.get("reroute_to") is not None:
                    m = remap(x["reroute_to"])
                    x["reroute_to"] = -1 if m is None else m
        elif r["kind"] == "process":
            r["routes"] = [[remap(j) for j in route if remap(j) is not None] for route in r["routes"]]
        elif r["kind"] == "flexible":
            r["routes"] = [[g for g in ([remap(j) for j in grp if remap(j) is not None] for grp in route) if g] for route in r["routes"]]
    t = s.get("tracker")
    if t:
        if t["kind"] == "NodePopulationSubset":
            t["nodes"] = [j - 1 if j > k else j for j in t["nodes"] if j != k] or [0]
        if t["kind"] == "GroupedNodePopulation":
            t["groups"] = [g for g in ([j - 1 if j > k else j for j in grp if j != k] for grp in t["groups"]) if g] or [[0]]
    return s


def reduce_case(sc, case, v, max_runs=200):
    clause, site = v["clause"], v.get("site")
    runs = 0
    cur, curv = case, v
    improved = True
    while improved and runs < max_runs:
        improved = False
        cands = []
        for k in range(len(cur["nodes"])):
            s = _drop_node(cur, k)
            if s is not None:
                cands.append(s)
        for s in cands + list(_candidates(cur)):
            if runs >= max_runs:
                break
            if json.dumps(s, sort_keys=True) == json.dumps(cur, sort_keys=True):
                continue
            runs += 1
            r = _fails(sc, s, clause, site)
            if r is not None:
                cur, curv = s, r
                improved = True
                break
    return cur, curv
